//! Defect hunt for the "Schedule algebra" property: overlay semantics and gap-free day
//! iteration. Only the public API is used. The inner vector of a `Schedule` is observed through
//! its derived `Debug` output.

use std::ops::Range;
use std::sync::Arc;

use opening_hours::schedule::{Schedule, TimeRange};
use opening_hours_syntax::sorted_vec::UniqueSortedVec;
use opening_hours_syntax::{ExtendedTime, RuleKind};

use RuleKind::{Closed, Open, Unknown};

const KINDS: [RuleKind; 3] = [Open, Closed, Unknown];
const DAY: u16 = 24 * 60;

// ---------------------------------------------------------------------------------------------
// Helpers
// ---------------------------------------------------------------------------------------------

fn t(mins: u16) -> ExtendedTime {
    ExtendedTime::from_mins_from_midnight(mins).unwrap()
}

fn hm(h: u8, m: u8) -> ExtendedTime {
    ExtendedTime::new(h, m).unwrap()
}

fn r(a: u16, b: u16) -> Range<ExtendedTime> {
    t(a)..t(b)
}

fn no_comments() -> UniqueSortedVec<Arc<str>> {
    UniqueSortedVec::new()
}

fn comments(list: &[&str]) -> UniqueSortedVec<Arc<str>> {
    list.iter().map(|s| Arc::<str>::from(*s)).collect::<Vec<_>>().into()
}

fn sch(ranges: &[(u16, u16)], kind: RuleKind) -> Schedule {
    Schedule::from_ranges(ranges.iter().map(|&(a, b)| r(a, b)), kind, &no_comments())
}

/// Reference model: one optional kind per minute of the day.
#[derive(Clone, PartialEq, Eq, Debug)]
struct Model(Vec<Option<RuleKind>>);

impl Model {
    fn new() -> Self {
        Model(vec![None; DAY as usize])
    }

    fn from_ranges(ranges: &[(u16, u16)], kind: RuleKind) -> Self {
        let mut res = Self::new();

        for &(a, b) in ranges {
            for m in a..b {
                res.0[m as usize] = Some(kind);
            }
        }

        res
    }

    /// `other` is overlaid on `self`.
    fn addition(mut self, other: &Model) -> Self {
        for (x, y) in self.0.iter_mut().zip(&other.0) {
            if y.is_some() {
                *x = *y;
            }
        }

        self
    }
}

fn parse_time(s: &str) -> u16 {
    let (h, m) = s.split_once(':').unwrap();
    h.parse::<u16>().unwrap() * 60 + m.parse::<u16>().unwrap()
}

/// Read the inner vector of a schedule out of its `Debug` output.
fn inner_of(schedule: &Schedule) -> Vec<(u16, u16, RuleKind)> {
    let dbg = format!("{schedule:?}");
    let mut res = Vec::new();

    for part in dbg.split("TimeRange { range: ").skip(1) {
        let (range, rest) = part.split_once(", kind: ").unwrap();
        let (start, end) = range.split_once("..").unwrap();
        let (kind, _) = rest.split_once(',').unwrap();

        let kind = match kind {
            "Open" => Open,
            "Closed" => Closed,
            "Unknown" => Unknown,
            other => panic!("unknown kind {other:?} in {dbg}"),
        };

        res.push((parse_time(start), parse_time(end), kind));
    }

    res
}

/// Check every clause of the statement for `schedule` against the model.
fn check(schedule: &Schedule, model: &Model, ctx: &dyn Fn() -> String) {
    // 1. Stored ranges are non-empty, increasing, disjoint and cover exactly the model
    let inner = inner_of(schedule);
    let mut covered = vec![None; DAY as usize];
    let mut last_end = 0;

    for (i, &(a, b, kind)) in inner.iter().enumerate() {
        assert!(a < b, "empty/inverted stored range {inner:?} -- {}", ctx());
        assert!(b <= DAY, "stored range out of the day {inner:?} -- {}", ctx());

        if i > 0 {
            assert!(last_end <= a, "overlapping/unsorted ranges {inner:?} -- {}", ctx());
        }

        last_end = b;

        for m in a..b {
            assert!(covered[m as usize].is_none());
            covered[m as usize] = Some(kind);
        }
    }

    if covered != model.0 {
        let m = (0..DAY as usize).find(|&m| covered[m] != model.0[m]).unwrap();

        panic!(
            "stored kind at minute {m} ({}) is {:?}, expected {:?}; inner={inner:?} -- {}",
            t(m as u16),
            covered[m],
            model.0[m],
            ctx()
        );
    }

    assert_eq!(schedule.is_empty(), inner.is_empty());

    // 2. Iteration is a gap-free tiling of 00:00-24:00
    let mut iter = schedule.clone().into_iter();
    let tiles: Vec<TimeRange> = iter.by_ref().collect();
    assert!(iter.next().is_none(), "iterator not fused -- {}", ctx());
    assert!(iter.next().is_none(), "iterator not fused -- {}", ctx());
    assert!(!tiles.is_empty(), "no tile -- {}", ctx());

    assert_eq!(
        tiles.first().unwrap().range.start,
        ExtendedTime::MIDNIGHT_00,
        "tiling does not start at 00:00: {tiles:?} -- {}",
        ctx()
    );

    assert_eq!(
        tiles.last().unwrap().range.end,
        ExtendedTime::MIDNIGHT_24,
        "tiling does not end at 24:00: {tiles:?} -- {}",
        ctx()
    );

    for tile in &tiles {
        assert!(tile.range.start < tile.range.end, "empty tile: {tiles:?} -- {}", ctx());
    }

    for pair in tiles.windows(2) {
        assert_eq!(pair[0].range.end, pair[1].range.start, "gap/overlap: {tiles:?} -- {}", ctx());
        assert_ne!(pair[0].kind, pair[1].kind, "same kinds adjacent: {tiles:?} -- {}", ctx());
    }

    for tile in &tiles {
        for m in tile.range.start.mins_from_midnight()..tile.range.end.mins_from_midnight() {
            let expected = model.0[m as usize].unwrap_or(Closed);

            assert_eq!(
                tile.kind,
                expected,
                "iterated kind at {} differs: {tiles:?} -- {}",
                t(m),
                ctx()
            );
        }
    }
}

/// Small deterministic generator.
struct Rng(u64);

impl Rng {
    fn next(&mut self) -> u64 {
        self.0 ^= self.0 << 13;
        self.0 ^= self.0 >> 7;
        self.0 ^= self.0 << 17;
        self.0
    }

    fn below(&mut self, n: u64) -> u64 {
        (self.next() >> 11) % n
    }

    fn pick<T: Copy>(&mut self, items: &[T]) -> T {
        items[self.below(items.len() as u64) as usize]
    }
}

// ---------------------------------------------------------------------------------------------
// Idea 1-2: exhaustive sequences of single-range schedules over a grid with minute-level
// boundaries (empty, inverted, nested, adjacent, overlapping ranges all occur)
// ---------------------------------------------------------------------------------------------

fn exhaustive(grid: &[u16], len: usize, degenerate: bool) {
    let mut atoms = Vec::new();

    for &a in grid {
        for &b in grid {
            for kind in KINDS {
                if degenerate || a < b {
                    atoms.push((a, b, kind));
                }
            }
        }
    }

    let mut idx = vec![0usize; len];

    loop {
        let mut schedule = Schedule::new();
        let mut model = Model::new();

        for &i in &idx {
            let (a, b, kind) = atoms[i];
            schedule = schedule.addition(sch(&[(a, b)], kind));
            model = model.addition(&Model::from_ranges(&[(a, b)], kind));
        }

        check(&schedule, &model, &|| {
            format!("{:?}", idx.iter().map(|&i| atoms[i]).collect::<Vec<_>>())
        });

        let mut pos = 0;

        loop {
            if pos == len {
                return;
            }

            idx[pos] += 1;

            if idx[pos] < atoms.len() {
                break;
            }

            idx[pos] = 0;
            pos += 1;
        }
    }
}

#[test]
fn idea01_exhaustive_len2_fine_grid() {
    exhaustive(&[0, 1, 2, 59, 60, 61, 600, 719, 720, 721, 1380, 1438, 1439, 1440], 2, true);
}

#[test]
fn idea02_exhaustive_len3_coarse_grid() {
    exhaustive(&[0, 1, 720, 1439, 1440], 3, true);
}

#[test]
fn idea03_exhaustive_len4_tiny_grid() {
    // proper ranges only (18 atoms), the degenerate ones are covered by the two tests above
    exhaustive(&[0, 480, 960, 1440], 4, false);
}

// ---------------------------------------------------------------------------------------------
// Idea 4: random sequences with multi-range from_ranges and composite right operands
// ---------------------------------------------------------------------------------------------

fn random_ranges(rng: &mut Rng, points: &[u16]) -> Vec<(u16, u16)> {
    let n = rng.below(5);

    (0..n)
        .map(|_| {
            if points.is_empty() {
                (rng.below(1441) as u16, rng.below(1441) as u16)
            } else {
                (rng.pick(points), rng.pick(points))
            }
        })
        .collect()
}

fn random_schedule(rng: &mut Rng, depth: u32, points: &[u16], log: &mut String) -> (Schedule, Model) {
    if depth == 0 || rng.below(3) == 0 {
        let ranges = random_ranges(rng, points);
        let kind = rng.pick(&KINDS);
        log.push_str(&format!("from_ranges({ranges:?}, {kind:?})"));
        (sch(&ranges, kind), Model::from_ranges(&ranges, kind))
    } else {
        let n = 1 + rng.below(4);
        log.push('(');
        let (mut schedule, mut model) = random_schedule(rng, depth - 1, points, log);

        for _ in 0..n {
            log.push_str(" + ");
            let (s, m) = random_schedule(rng, depth - 1, points, log);
            schedule = schedule.addition(s);
            model = model.addition(&m);
        }

        log.push(')');
        (schedule, model)
    }
}

#[test]
fn idea04_random_nested_additions_any_minute() {
    let mut rng = Rng(0x1234_5678_9abc_def1);

    for _ in 0..3000 {
        let mut log = String::new();
        let (schedule, model) = random_schedule(&mut rng, 3, &[], &mut log);
        check(&schedule, &model, &|| log.clone());
    }
}

#[test]
fn idea05_random_nested_additions_few_points() {
    // Few distinct points: lots of shared bounds, adjacency and exact covering
    let mut rng = Rng(0xdead_beef_cafe_f00d);
    let points = [0, 1, 59, 60, 61, 600, 601, 1439, 1440];

    for _ in 0..4000 {
        let mut log = String::new();
        let (schedule, model) = random_schedule(&mut rng, 3, &points, &mut log);
        check(&schedule, &model, &|| log.clone());
    }
}

#[test]
fn idea06_random_hour_vs_minute_ordering() {
    // Points that would be misordered if minutes were compared before hours
    let mut rng = Rng(0x0bad_cafe_1234_4321);
    let points = [59, 60, 9 * 60 + 59, 10 * 60, 10 * 60 + 1, 11 * 60, 23 * 60 + 59, 1440];

    for _ in 0..3000 {
        let mut log = String::new();
        let (schedule, model) = random_schedule(&mut rng, 2, &points, &mut log);
        check(&schedule, &model, &|| log.clone());
    }
}

// ---------------------------------------------------------------------------------------------
// Targeted ideas
// ---------------------------------------------------------------------------------------------

fn tiles(schedule: Schedule) -> Vec<(u16, u16, RuleKind)> {
    schedule
        .into_iter()
        .map(|tr| {
            (
                tr.range.start.mins_from_midnight(),
                tr.range.end.mins_from_midnight(),
                tr.kind,
            )
        })
        .collect()
}

#[test]
fn idea07_empty_schedule_iterates_as_one_closed_day() {
    assert_eq!(tiles(Schedule::new()), [(0, 1440, Closed)]);
    assert_eq!(tiles(sch(&[], Open)), [(0, 1440, Closed)]);
    assert!(sch(&[], Open).is_empty());
}

#[test]
fn idea08_empty_and_inverted_ranges_are_dropped() {
    let s = sch(&[(600, 600), (720, 600), (1440, 0), (0, 0), (1440, 1440)], Open);
    assert!(s.is_empty(), "{s:?}");
    assert_eq!(s, Schedule::new());
    // ... and they do not glue their neighbours together
    let s = sch(&[(100, 200), (300, 200), (200, 200), (300, 400)], Open);
    assert_eq!(inner_of(&s), [(100, 200, Open), (300, 400, Open)]);
}

#[test]
fn idea09_from_ranges_nested_range_does_not_shrink_outer() {
    let s = sch(&[(100, 900), (200, 300), (850, 1000)], Unknown);
    assert_eq!(inner_of(&s), [(100, 1000, Unknown)]);
}

#[test]
fn idea10_from_ranges_same_start_different_ends() {
    // unstable sort on the start only: whatever the order, the longest end must win
    let s = sch(&[(100, 200), (100, 900), (100, 150), (100, 899)], Open);
    assert_eq!(inner_of(&s), [(100, 900, Open)]);
}

#[test]
fn idea11_from_ranges_chain_of_adjacent_ranges() {
    let ranges: Vec<_> = (0..1440).rev().map(|m| (m, m + 1)).collect();
    let s = sch(&ranges, Open);
    assert_eq!(inner_of(&s), [(0, 1440, Open)]);
    assert_eq!(tiles(s), [(0, 1440, Open)]);
}

#[test]
fn idea12_from_ranges_equals_its_normal_form() {
    assert_eq!(sch(&[(600, 720), (720, 840)], Open), sch(&[(600, 840)], Open));
    assert_eq!(sch(&[(700, 840), (600, 720)], Open), sch(&[(600, 840)], Open));
}

#[test]
fn idea13_addition_with_empty_operands() {
    let a = sch(&[(600, 720)], Open);
    assert_eq!(a.clone().addition(Schedule::new()), a);
    assert_eq!(Schedule::new().addition(a.clone()), a);
}

#[test]
fn idea14_overlay_inside_splits_the_older_range() {
    let s = sch(&[(0, 1440)], Open).addition(sch(&[(600, 601)], Unknown));
    assert_eq!(tiles(s), [(0, 600, Open), (600, 601, Unknown), (601, 1440, Open)]);
}

#[test]
fn idea15_overlay_covering_several_older_ranges() {
    let s = sch(&[(60, 120), (180, 240), (300, 360)], Open)
        .addition(sch(&[(240, 300)], Unknown))
        .addition(sch(&[(90, 330)], Closed));

    assert_eq!(
        tiles(s),
        [(0, 60, Closed), (60, 90, Open), (90, 330, Closed), (330, 360, Open), (360, 1440, Closed)]
    );
}

#[test]
fn idea16_explicit_closed_hides_older_open() {
    let s = sch(&[(0, 1440)], Open).addition(sch(&[(0, 1440)], Closed));
    assert_eq!(inner_of(&s), [(0, 1440, Closed)]);
    assert_eq!(tiles(s), [(0, 1440, Closed)]);
}

#[test]
fn idea17_newer_open_over_older_closed() {
    let s = sch(&[(0, 1440)], Closed).addition(sch(&[(1439, 1440), (0, 1)], Open));
    assert_eq!(tiles(s), [(0, 1, Open), (1, 1439, Closed), (1439, 1440, Open)]);
}

#[test]
fn idea18_same_kind_neighbours_are_merged_by_iteration() {
    // adjacent ranges of the same kind added separately, in both orders, with a closed filler
    let s = sch(&[(600, 720)], Open)
        .addition(sch(&[(720, 840)], Open))
        .addition(sch(&[(480, 600)], Open))
        .addition(sch(&[(840, 900)], Closed))
        .addition(sch(&[(960, 1000)], Closed));

    assert_eq!(tiles(s), [(0, 480, Closed), (480, 840, Open), (840, 1440, Closed)]);
}

#[test]
fn idea19_same_kind_different_comments_still_merge_in_iteration() {
    let s = Schedule::from_ranges([r(600, 720)], Open, &comments(&["a"]))
        .addition(Schedule::from_ranges([r(720, 840)], Open, &comments(&["b"])))
        .addition(Schedule::from_ranges([r(900, 960)], Closed, &comments(&["c"])))
        .addition(Schedule::from_ranges([r(1000, 1100)], Closed, &comments(&["d"])));

    assert_eq!(tiles(s), [(0, 600, Closed), (600, 840, Open), (840, 1440, Closed)]);
}

#[test]
fn idea20_unknown_separated_by_hole_is_not_merged() {
    let s = sch(&[(0, 60), (120, 180)], Unknown);
    assert_eq!(tiles(s), [(0, 60, Unknown), (60, 120, Closed), (120, 180, Unknown), (180, 1440, Closed)]);
}

#[test]
fn idea21_closed_ranges_and_holes_fuse() {
    let s = sch(&[(10, 20), (30, 40), (1430, 1440)], Closed);
    assert_eq!(tiles(s), [(0, 1440, Closed)]);
    let s = sch(&[(10, 20), (30, 40)], Closed).addition(sch(&[(20, 30)], Open));
    assert_eq!(tiles(s), [(0, 20, Closed), (20, 30, Open), (30, 1440, Closed)]);
}

#[test]
fn idea22_last_minute_and_first_minute() {
    let s = sch(&[(1439, 1440)], Unknown).addition(sch(&[(0, 1)], Unknown));
    assert_eq!(tiles(s), [(0, 1, Unknown), (1, 1439, Closed), (1439, 1440, Unknown)]);
}

#[test]
fn idea23_composite_right_operand_with_explicit_closed_and_holes() {
    // other = open 10-14 with an explicit closed 11-12 and a hole after 14
    let other = sch(&[(600, 840)], Open).addition(sch(&[(660, 720)], Closed));
    let base = sch(&[(0, 1440)], Unknown);

    assert_eq!(
        tiles(base.addition(other)),
        [
            (0, 600, Unknown),
            (600, 660, Open),
            (660, 720, Closed),
            (720, 840, Open),
            (840, 1440, Unknown)
        ]
    );
}

#[test]
fn idea24_addition_is_associative_on_kinds() {
    let mut rng = Rng(42);

    for _ in 0..2000 {
        let mk = |rng: &mut Rng| {
            let ranges = random_ranges(rng, &[0, 100, 200, 300, 400, 1440]);
            sch(&ranges, rng.pick(&KINDS))
        };

        let (a, b, c) = (mk(&mut rng), mk(&mut rng), mk(&mut rng));
        let left = a.clone().addition(b.clone()).addition(c.clone());
        let right = a.addition(b.addition(c));
        assert_eq!(tiles(left), tiles(right));
    }
}

#[test]
fn idea25_addition_is_idempotent() {
    let mut rng = Rng(43);

    for _ in 0..2000 {
        let mut log = String::new();
        let (a, _) = random_schedule(&mut rng, 2, &[0, 100, 200, 300, 400, 1440], &mut log);
        assert_eq!(tiles(a.clone().addition(a.clone())), tiles(a), "{log}");
    }
}

#[test]
fn idea26_alternating_minutes_worst_case_size() {
    // 1440 stored ranges, overlaid by another 1440 ranges (recursion depth of `addition`)
    let mut base = Schedule::new();
    let mut model = Model::new();

    for kind in KINDS {
        let ranges: Vec<_> = (0..1440)
            .filter(|m| m % 3 == kind as u16)
            .map(|m| (m, m + 1))
            .collect();

        base = base.addition(sch(&ranges, kind));
        model = model.addition(&Model::from_ranges(&ranges, kind));
    }

    assert_eq!(inner_of(&base).len(), 1440);
    check(&base, &model, &|| "alternating".to_string());

    let mut over = Schedule::new();
    let mut over_model = Model::new();

    for kind in KINDS {
        let ranges: Vec<_> = (0..1440)
            .filter(|m| (m + 1) % 3 == kind as u16 && m % 7 != 0)
            .map(|m| (m, m + 1))
            .collect();

        over = over.addition(sch(&ranges, kind));
        over_model = over_model.addition(&Model::from_ranges(&ranges, kind));
    }

    let sum = base.addition(over);
    let sum_model = model.addition(&over_model);
    check(&sum, &sum_model, &|| "alternating sum".to_string());
}

#[test]
fn idea27_schedule_macro_agrees_with_manual_additions() {
    let by_macro = opening_hours::schedule! {
         9,00 => Open => 12,00;
        14,00 => Open => 18,00 => Unknown, "depleted" => 20,00;
        11,00 => Closed, "lunch" => 15,00;
    };

    let manual = sch(&[(540, 720)], Open)
        .addition(sch(&[(840, 1080)], Open))
        .addition(Schedule::from_ranges([r(1080, 1200)], Unknown, &comments(&["depleted"])))
        .addition(Schedule::from_ranges([r(660, 900)], Closed, &comments(&["lunch"])));

    assert_eq!(tiles(by_macro.clone()), tiles(manual));

    assert_eq!(
        tiles(by_macro),
        [
            (0, 540, Closed),
            (540, 660, Open),
            (660, 900, Closed),
            (900, 1080, Open),
            (1080, 1200, Unknown),
            (1200, 1440, Closed)
        ]
    );
}

#[test]
fn idea28_overlay_sharing_exactly_one_bound() {
    for kind_new in KINDS {
        for kind_old in KINDS {
            let model = Model::from_ranges(&[(600, 720)], kind_old);

            for new in [(600, 660), (660, 720), (540, 600), (720, 780), (600, 720), (599, 721)] {
                let s = sch(&[(600, 720)], kind_old).addition(sch(&[new], kind_new));
                let m = model.clone().addition(&Model::from_ranges(&[new], kind_new));
                check(&s, &m, &|| format!("{kind_old:?} 600-720 + {kind_new:?} {new:?}"));
            }
        }
    }
}

#[test]
fn idea29_iterator_stays_finished() {
    let mut iter = sch(&[(0, 1440)], Open).into_iter();
    assert!(iter.next().is_some());

    for _ in 0..5 {
        assert!(iter.next().is_none());
    }
}

#[test]
fn idea30_time_constructors_agree() {
    // `ExtendedTime::new` and `from_mins_from_midnight` must describe the same instants, or the
    // whole model would be off
    for h in 0..=24u8 {
        for m in 0..60u8 {
            if h == 24 && m > 0 {
                continue;
            }

            assert_eq!(hm(h, m), t(u16::from(h) * 60 + u16::from(m)));
        }
    }

    assert!(hm(9, 59) < hm(10, 0));
    assert!(hm(23, 59) < ExtendedTime::MIDNIGHT_24);
}

#[test]
fn idea31_comments_never_change_the_kinds() {
    let mut rng = Rng(0x5eed_5eed_5eed_5eed);
    let points = [0, 60, 120, 180, 240, 300, 1380, 1440];
    let pool = [&[][..], &["a"][..], &["b"][..], &["a", "b"][..], &["c"][..]];

    for _ in 0..3000 {
        let mut schedule = Schedule::new();
        let mut model = Model::new();
        let mut log = String::new();

        for _ in 0..(1 + rng.below(8)) {
            let ranges = random_ranges(&mut rng, &points);
            let kind = rng.pick(&KINDS);
            let com = rng.pick(&pool);
            log.push_str(&format!("+ {ranges:?} {kind:?} {com:?} "));

            schedule = schedule.addition(Schedule::from_ranges(
                ranges.iter().map(|&(a, b)| r(a, b)),
                kind,
                &comments(com),
            ));

            model = model.addition(&Model::from_ranges(&ranges, kind));
        }

        check(&schedule, &model, &|| log.clone());
    }
}

#[test]
fn idea32_disjoint_operands_commute() {
    let a = sch(&[(0, 60), (120, 180)], Open);
    let b = sch(&[(60, 120), (180, 240)], Unknown);
    let c = sch(&[(240, 300), (1380, 1440)], Closed);
    let abc = a.clone().addition(b.clone()).addition(c.clone());
    let cba = c.clone().addition(b.clone()).addition(a.clone());
    let bca = b.addition(c).addition(a);
    assert_eq!(abc, cba);
    assert_eq!(abc, bca);
    assert_eq!(tiles(abc.clone()), tiles(cba));
    assert_eq!(inner_of(&abc).len(), 6);
}

#[test]
fn idea33_repeated_overlays_do_not_grow_the_schedule() {
    let mut s = Schedule::new();

    for i in 0..300 {
        s = s.addition(sch(&[(0, 1440)], KINDS[i % 3]));
        assert_eq!(inner_of(&s).len(), 1);
        s = s.addition(sch(&[(600, 720)], KINDS[(i + 1) % 3]));
        assert_eq!(inner_of(&s).len(), 3);
    }

    assert_eq!(tiles(s), [(0, 600, Unknown), (600, 720, Open), (720, 1440, Unknown)]);
}

#[test]
fn idea34_from_ranges_accepts_any_iterator_and_order() {
    let mut rng = Rng(7);

    for _ in 0..2000 {
        let n = rng.below(12);

        let ranges: Vec<_> = (0..n)
            .map(|_| (rng.below(1441) as u16, rng.below(1441) as u16))
            .collect();

        let kind = rng.pick(&KINDS);
        let forward = sch(&ranges, kind);
        let mut reversed = ranges.clone();
        reversed.reverse();
        let backward = Schedule::from_ranges(reversed.into_iter().map(|(a, b)| r(a, b)), kind, &no_comments());
        assert_eq!(forward, backward, "{ranges:?}");
        check(&forward, &Model::from_ranges(&ranges, kind), &|| format!("{ranges:?}"));
    }
}

#[test]
fn idea35_schedules_of_parsed_expressions_tile_the_day() {
    // The evaluator clips every time span to the day before it calls `from_ranges`, so schedules
    // returned by `schedule_at` are in the domain of the statement too.
    use chrono::NaiveDate;
    use opening_hours::OpeningHours;

    let expressions = [
        "24/7",
        "Mo-Fr 10:00-12:00,14:00-18:00; Sa 22:00-26:00; Su off",
        "20:00-04:00",
        "20:00-04:00 unknown; 03:00-05:00 closed \"cleaning\"",
        "Mo 22:00-48:00",
        "sunset-sunrise",
        "(sunset+02:00)-(sunrise-01:00) open; 12:00-13:00 off",
        "10:00+",
        "00:00-24:00; 12:00-12:01 unknown",
        "Mo-Su 00:00-00:01, 23:59-24:00",
        "08:00-20:00, 19:00-07:00 unknown",
        "08:00-12:00 || 10:00-14:00 unknown",
        "Mo 10:00-12:00; Mo 11:00-13:00 closed, Mo 12:30-15:00 unknown",
        "00:00-24:00 closed",
        "off",
    ];

    for expr in expressions {
        let oh = OpeningHours::parse(expr).unwrap();
        let mut date = NaiveDate::from_ymd_opt(2024, 2, 26).unwrap();

        for _ in 0..14 {
            let schedule = oh.schedule_at(date);
            let inner = inner_of(&schedule);
            let mut last = 0;

            for &(a, b, _) in &inner {
                assert!(last <= a && a < b && b <= DAY, "{expr} {date}: {inner:?}");
                last = b;
            }

            let tl = tiles(schedule);
            assert_eq!(tl.first().unwrap().0, 0, "{expr} {date}: {tl:?}");
            assert_eq!(tl.last().unwrap().1, DAY, "{expr} {date}: {tl:?}");

            for pair in tl.windows(2) {
                assert_eq!(pair[0].1, pair[1].0, "{expr} {date}: {tl:?}");
                assert_ne!(pair[0].2, pair[1].2, "{expr} {date}: {tl:?}");
            }

            date = date.succ_opt().unwrap();
        }
    }
}

// ---------------------------------------------------------------------------------------------
// Observations OUTSIDE the statement (kept ignored: they are not violations of the property)
// ---------------------------------------------------------------------------------------------

/// The statement only speaks about kinds. For comments, a newer range that only *partially*
/// overlaps an older one inherits the comments of the older one, although the rest of the older
/// range is kept next to it.
#[test]
#[ignore = "outside the statement: comments, not kinds"]
fn outside_comments_of_a_partially_hidden_range_leak_into_the_newer_one() {
    let s = Schedule::from_ranges([r(600, 720)], Open, &comments(&["old"]))
        .addition(Schedule::from_ranges([r(480, 660)], Unknown, &comments(&["new"])));

    let all: Vec<_> = s.into_iter().collect();
    let newer = all.iter().find(|tr| tr.kind == Unknown).unwrap();
    assert_eq!(newer.comments, comments(&["new"]), "{all:?}");
}

/// The statement restricts ranges to 00:00-24:00. With ranges past 24:00 the tiling does not stop
/// at 24:00 (and whether it does depends on the kinds).
#[test]
#[ignore = "outside the statement: ranges past 24:00"]
fn outside_ranges_past_midnight_break_the_tiling() {
    let s = sch(&[(0, 1380)], Open).addition(sch(&[(1500, 1560)], Unknown));
    let tl = tiles(s);
    assert_eq!(tl.last().unwrap().1, DAY, "{tl:?}");
}
