//! Defect hunt for "Day schedules follow the documented rule semantics".
#![allow(dead_code)]

use std::sync::Arc;

use chrono::{Datelike, Duration, NaiveDate, Weekday};
use compact_calendar::CompactCalendar;
use opening_hours::{Context, ContextHolidays, OpeningHours, RuleKind};

fn d(y: i32, m: u32, day: u32) -> NaiveDate {
    NaiveDate::from_ymd_opt(y, m, day).unwrap()
}

/// Day schedule as (start minute, end minute, kind) with closed parts removed.
fn sched_oh<L: opening_hours::localization::Localize>(
    oh: &OpeningHours<L>,
    date: NaiveDate,
) -> Vec<(u16, u16, RuleKind)> {
    oh.schedule_at(date)
        .into_iter()
        .filter(|tr| tr.kind != RuleKind::Closed)
        .map(|tr| {
            (
                tr.range.start.mins_from_midnight(),
                tr.range.end.mins_from_midnight(),
                tr.kind,
            )
        })
        .collect()
}

fn sched(expr: &str, date: NaiveDate) -> Vec<(u16, u16, RuleKind)> {
    let oh = OpeningHours::parse(expr).unwrap_or_else(|e| panic!("{expr:?} must parse: {e}"));
    sched_oh(&oh, date)
}

/// Is there any non closed minute that day?
fn applies(expr: &str, date: NaiveDate) -> bool {
    !sched(expr, date).is_empty()
}

fn hm(h: u16, m: u16) -> u16 {
    h * 60 + m
}

use RuleKind::{Open, Unknown};

fn days_matching(expr: &str, from: NaiveDate, to: NaiveDate) -> Vec<NaiveDate> {
    let oh = OpeningHours::parse(expr).unwrap_or_else(|e| panic!("{expr:?} must parse: {e}"));
    from.iter_days()
        .take_while(|x| *x <= to)
        .filter(|x| !sched_oh(&oh, *x).is_empty())
        .collect()
}

// ---------------------------------------------------------------------------
// Idea 1: dated easter start, undated fixed end: a single interval in 2024
// ---------------------------------------------------------------------------
#[test]
fn i01_dated_easter_to_undated_fixed() {
    let e = "2024 easter-Dec 31";
    assert!(applies(e, d(2024, 6, 1)));
    assert!(!applies(e, d(2024, 3, 1)));
    assert!(!applies(e, d(2025, 6, 1)), "2025-06-01 must not match {e}");
    assert!(!applies(e, d(2030, 6, 1)), "2030-06-01 must not match {e}");
}

// Idea 2: dated fixed start, easter end
#[test]
fn i02_dated_fixed_to_easter() {
    let e = "2024 Jan 1-easter";
    assert!(applies(e, d(2024, 2, 1)));
    assert!(!applies(e, d(2024, 6, 1)));
    assert!(!applies(e, d(2025, 2, 1)), "2025-02-01 must not match {e}");
    assert!(!applies(e, d(2030, 2, 1)), "2030-02-01 must not match {e}");
}

// Idea 3: both dated, easter start
#[test]
fn i03_dated_easter_to_dated_fixed() {
    let e = "2024 easter-2024 Dec 31";
    assert!(applies(e, d(2024, 6, 1)));
    assert!(!applies(e, d(2025, 6, 1)), "2025-06-01 must not match {e}");
    assert!(!applies(e, d(2030, 6, 1)), "2030-06-01 must not match {e}");
    assert!(!applies(e, d(2020, 6, 1)), "2020-06-01 must not match {e}");
}

// Idea 4: both dated, easter end
#[test]
fn i04_dated_fixed_to_dated_easter() {
    let e = "2024 Jan 1-2024 easter";
    assert!(applies(e, d(2024, 2, 1)));
    assert!(!applies(e, d(2023, 2, 1)), "2023 must not match {e}");
    assert!(!applies(e, d(2025, 2, 1)), "2025 must not match {e}");
    assert!(!applies(e, d(2030, 2, 1)), "2030 must not match {e}");
    assert!(!applies(e, d(1950, 2, 1)), "1950 must not match {e}");
}

// Idea 5: day offsets bigger than the 3 year window
#[test]
fn i05_large_day_offset_single_day() {
    // Jan 1 2022 + 800 days = 2024-03-11
    let expected = d(2022, 1, 1) + Duration::days(800);
    assert_eq!(expected, d(2024, 3, 11));
    assert!(applies("Jan 1 +800 days", expected));
}

#[test]
fn i05b_large_day_offset_range() {
    // (Jan 1 .. Jan 10) +800 days
    let s = d(2022, 1, 1) + Duration::days(800);
    assert!(applies("Jan 1 +800 days-Jan 10 +800 days", s + Duration::days(3)));
}

#[test]
fn i05c_large_negative_day_offset() {
    let expected = d(2026, 12, 31) - Duration::days(800);
    assert!(applies("Dec 31 -800 days", expected));
}

// Idea 6: Feb 29-30 only exists on leap years
#[test]
fn i06_feb29_30() {
    let e = "Feb 29-Feb 30";
    assert!(applies(e, d(2024, 2, 29)));
    assert!(!applies(e, d(2023, 6, 1)), "2023-06-01 must not match {e}");
    assert!(!applies(e, d(2021, 6, 1)), "2021-06-01 must not match {e}");
    assert!(!applies(e, d(2024, 2, 28)), "2024-02-28 must not match {e}");
}

// Idea 7: wrapping week range with a step
#[test]
fn i07_week_wrapping_step() {
    let e = "week 50-10/2";
    // 2021-01-04 is the Monday of week 1, 2021-01-11 of week 2
    assert_eq!(d(2021, 1, 4).iso_week().week(), 1);
    assert_eq!(d(2021, 1, 11).iso_week().week(), 2);
    let w1 = applies(e, d(2021, 1, 4));
    let w2 = applies(e, d(2021, 1, 11));
    assert!(!(w1 && w2), "two consecutive weeks match a step of 2");
}

// Idea 8: fallback vs spill from previous day
#[test]
fn i08_fallback_keeps_spill() {
    // 2024-06-03 is a Monday
    assert_eq!(d(2024, 6, 3).weekday(), Weekday::Mon);
    let e = "Mo 22:00-26:00 || 08:00-09:00";
    let tue = sched(e, d(2024, 6, 4));
    assert!(
        tue.contains(&(0, hm(2, 0), Open)),
        "the span of Monday must continue on Tuesday: {tue:?}"
    );
}

// Idea 9: later normal rule's spill on a day covered by an earlier rule
#[test]
fn i09_normal_rule_spill_over_earlier_rule() {
    let e = "Mo-Su 10:00-12:00; Su 23:00-25:00";
    let mon = sched(e, d(2024, 6, 3));
    assert!(
        mon.contains(&(0, hm(1, 0), Open)),
        "the span of Sunday must continue on Monday: {mon:?}"
    );
}

// Idea 10: earlier rule's spill on a day replaced by later normal rule
#[test]
fn i10_spill_replaced_by_later_rule() {
    let e = "Su 23:00-25:00; Mo 10:00-12:00";
    let mon = sched(e, d(2024, 6, 3));
    // judgement call: the later rule applies on Monday and replaces earlier rules
    assert_eq!(mon, vec![(hm(10, 0), hm(12, 0), Open)]);
}

// ---------------------------------------------------------------------------
// Batch 2
// ---------------------------------------------------------------------------

fn ctx_with(public: &[NaiveDate], school: &[NaiveDate]) -> Context {
    let mut p = CompactCalendar::default();
    for x in public {
        p.insert(*x);
    }
    let mut s = CompactCalendar::default();
    for x in school {
        s.insert(*x);
    }
    Context::default().with_holidays(ContextHolidays::new(Arc::new(p), Arc::new(s)))
}

fn sched_ctx(expr: &str, ctx: &Context, date: NaiveDate) -> Vec<(u16, u16, RuleKind)> {
    let oh = OpeningHours::parse(expr)
        .unwrap_or_else(|e| panic!("{expr:?} must parse: {e}"))
        .with_context(ctx.clone());
    sched_oh(&oh, date)
}

// Idea 11: realistic bar hours
#[test]
fn i11_bar_hours_spill() {
    let e = "Mo-Su 10:00-22:00; Fr,Sa 10:00-26:00";
    // 2024-06-09 is a Sunday
    assert_eq!(d(2024, 6, 9).weekday(), Weekday::Sun);
    let sun = sched(e, d(2024, 6, 9));
    assert_eq!(
        sun,
        vec![(0, hm(2, 0), Open), (hm(10, 0), hm(22, 0), Open)],
        "Saturday night must continue on Sunday"
    );
}

// Idea 12: PH with context calendars, offsets, leap day and year bounds
#[test]
fn i12_holidays_from_context() {
    let public = [d(2024, 2, 29), d(2024, 12, 31), d(2025, 1, 1), d(1900, 1, 1), d(9999, 12, 31)];
    let school = [d(2024, 7, 14), d(2024, 2, 29)];
    let ctx = ctx_with(&public, &school);

    for x in d(2024, 1, 1).iter_days().take(800) {
        assert_eq!(!sched_ctx("PH", &ctx, x).is_empty(), public.contains(&x), "PH {x}");
        assert_eq!(!sched_ctx("SH", &ctx, x).is_empty(), school.contains(&x), "SH {x}");
        assert_eq!(
            !sched_ctx("PH +1 day", &ctx, x).is_empty(),
            public.contains(&(x - Duration::days(1))),
            "PH +1 day {x}"
        );
        assert_eq!(
            !sched_ctx("PH -1 day", &ctx, x).is_empty(),
            public.contains(&(x + Duration::days(1))),
            "PH -1 day {x}"
        );
        assert_eq!(
            !sched_ctx("PH,SH", &ctx, x).is_empty(),
            public.contains(&x) || school.contains(&x),
            "PH,SH {x}"
        );
        assert_eq!(
            !sched_ctx("Mo,PH", &ctx, x).is_empty(),
            public.contains(&x) || x.weekday() == Weekday::Mon,
            "Mo,PH {x}"
        );
    }

    assert!(!sched_ctx("PH", &ctx, d(1900, 1, 1)).is_empty());
    assert!(!sched_ctx("PH", &ctx, d(9999, 12, 31)).is_empty());
    assert!(!sched_ctx("PH -1 day", &ctx, d(9999, 12, 30)).is_empty());
    assert!(!sched_ctx("PH +1 day", &ctx, d(1900, 1, 2)).is_empty());
    // Without calendar: never
    assert!(sched("PH", d(2025, 1, 1)).is_empty());
    assert!(sched("PH", d(2024, 12, 25)).is_empty());
}

// Idea 13: "PH Mo" (space) : judgement call, js reads it as an intersection
#[test]
fn i13_ph_space_weekday() {
    // 2025-01-01 is a Wednesday
    let ctx = ctx_with(&[d(2025, 1, 1)], &[]);
    // A Monday that is not a holiday
    let mon = d(2025, 1, 6);
    assert!(
        sched_ctx("PH Mo", &ctx, mon).is_empty(),
        "judgement call: 'PH Mo' is read as 'PH,Mo'"
    );
}

// Idea 14: nth of month positions, with offset, brute force
#[test]
fn i14_nth_weekday_bruteforce() {
    fn nth_from_start(x: NaiveDate) -> u32 {
        (x.day() - 1) / 7 + 1
    }
    fn nth_from_end(x: NaiveDate) -> u32 {
        let mut n = 1;
        let mut y = x + Duration::days(7);
        while y.month() == x.month() {
            n += 1;
            y = y + Duration::days(7);
        }
        n
    }

    let cases: Vec<(&str, Box<dyn Fn(NaiveDate) -> bool>)> = vec![
        ("Mo[1]", Box::new(|x| x.weekday() == Weekday::Mon && nth_from_start(x) == 1)),
        ("Fr[5]", Box::new(|x| x.weekday() == Weekday::Fri && nth_from_start(x) == 5)),
        ("Su[-1]", Box::new(|x| x.weekday() == Weekday::Sun && nth_from_end(x) == 1)),
        ("Su[-5]", Box::new(|x| x.weekday() == Weekday::Sun && nth_from_end(x) == 5)),
        (
            "Tu[2-4]",
            Box::new(|x| x.weekday() == Weekday::Tue && (2..=4).contains(&nth_from_start(x))),
        ),
        (
            "We[1,-1]",
            Box::new(|x| {
                x.weekday() == Weekday::Wed && (nth_from_start(x) == 1 || nth_from_end(x) == 1)
            }),
        ),
        (
            "Sa[-1] +2 days",
            Box::new(|x| {
                let y = x - Duration::days(2);
                y.weekday() == Weekday::Sat && nth_from_end(y) == 1
            }),
        ),
        (
            "Mo[1] -3 days",
            Box::new(|x| {
                let y = x + Duration::days(3);
                y.weekday() == Weekday::Mon && nth_from_start(y) == 1
            }),
        ),
        (
            "Th[1] +40 days",
            Box::new(|x| {
                let y = x - Duration::days(40);
                y.weekday() == Weekday::Thu && nth_from_start(y) == 1
            }),
        ),
    ];

    for (expr, model) in cases {
        let oh = OpeningHours::parse(expr).unwrap();
        for start in [d(1900, 1, 1), d(2023, 1, 1), d(9997, 1, 1)] {
            for x in start.iter_days().take(3 * 366) {
                if x.year() > 9999 {
                    break;
                }
                assert_eq!(!sched_oh(&oh, x).is_empty(), model(x), "{expr} {x}");
            }
        }
    }
}

// Idea 15: reversed nth range
#[test]
fn i15_reversed_nth_range() {
    // judgement call: "Mo[3-1]" is an empty list of positions, it turns into "every Monday"
    let e = "Mo[3-1]";
    // 2024-06-24 is the 4th Monday of June 2024
    assert_eq!(d(2024, 6, 24).weekday(), Weekday::Mon);
    assert!(!applies(e, d(2024, 6, 24)), "4th monday matches {e}");
}

// Idea 16: wrapping weekday range and nth
#[test]
fn i16_wrapping_weekdays() {
    let e = "Sa-Mo";
    for x in d(2024, 6, 1).iter_days().take(30) {
        let expected = matches!(x.weekday(), Weekday::Sat | Weekday::Sun | Weekday::Mon);
        assert_eq!(applies(e, x), expected, "{x}");
    }
    let e = "Su-Su";
    for x in d(2024, 6, 1).iter_days().take(30) {
        assert_eq!(applies(e, x), x.weekday() == Weekday::Sun, "{x}");
    }
}

// Idea 17: year ranges, steps, plus
#[test]
fn i17_year_ranges() {
    for y in 1900..=9999 {
        let x = d(y, 7, 1);
        assert_eq!(applies("2020-2030/3", x), (2020..=2030).contains(&y) && (y - 2020) % 3 == 0);
        assert_eq!(applies("2020+", x), y >= 2020);
        assert_eq!(applies("1900-9999/1000", x), (y - 1900) % 1000 == 0);
        assert_eq!(applies("2020,2022-2024", x), y == 2020 || (2022..=2024).contains(&y));
        assert_eq!(applies("2020-2020/5", x), y == 2020);
    }
}

// Idea 18: reversed year range. Judgement call: should it be empty?
#[test]
fn i18_reversed_year_range() {
    let e = "2030-2020";
    assert!(!applies(e, d(2010, 1, 1)), "judgement call: {e} matches 2010");
}

// Idea 19: month ranges with years
#[test]
fn i19_month_ranges() {
    for x in d(2019, 1, 1).iter_days().take(4 * 366) {
        let (y, m) = (x.year(), x.month());
        assert_eq!(applies("Nov-Feb", x), m >= 11 || m <= 2, "{x}");
        assert_eq!(
            applies("2020Nov-Feb", x),
            (y == 2020 && m >= 11) || (y == 2021 && m <= 2),
            "{x}"
        );
        assert_eq!(applies("2020Mar-May", x), y == 2020 && (3..=5).contains(&m), "{x}");
        assert_eq!(applies("2020Dec", x), y == 2020 && m == 12, "{x}");
        assert_eq!(applies("Jan-Jan", x), m == 1, "{x}");
        assert_eq!(applies("Jan,Mar,Dec", x), [1, 3, 12].contains(&m), "{x}");
    }
}

// Idea 20: date ranges bruteforce
#[test]
fn i20_date_ranges() {
    for x in d(2019, 1, 1).iter_days().take(6 * 366) {
        let (y, m, dd) = (x.year(), x.month(), x.day());
        let md = (m, dd);
        assert_eq!(applies("Dec 25-Jan 5", x), md >= (12, 25) || md <= (1, 5), "{x}");
        assert_eq!(applies("Jan 5-Dec 25", x), md >= (1, 5) && md <= (12, 25), "{x}");
        assert_eq!(applies("Feb 29", x), md == (2, 29), "{x}");
        assert_eq!(applies("Feb 28-Mar 1", x), md == (2, 28) || md == (2, 29) || md == (3, 1), "{x}");
        assert_eq!(applies("Feb 20-29", x), m == 2 && dd >= 20, "Feb 20-29 {x}");
        assert_eq!(applies("Feb 29-Mar 5", x), md >= (2, 29) && md <= (3, 5), "Feb 29-Mar 5 {x}");
        assert_eq!(applies("Jan 31", x), md == (1, 31), "{x}");
        assert_eq!(applies("Apr 31", x), false, "{x}");
        assert_eq!(applies("Dec 31 +1 day", x), md == (1, 1), "{x}");
        assert_eq!(applies("Jan 1 -1 day", x), md == (12, 31), "{x}");
        assert_eq!(applies("Mar 1 -1 day", x), md == (2, if y % 4 == 0 { 29 } else { 28 }), "{x}");
        assert_eq!(
            applies("2020 Dec 25-Jan 5", x),
            (y == 2020 && md >= (12, 25)) || (y == 2021 && md <= (1, 5)),
            "{x}"
        );
        assert_eq!(
            applies("2020 Feb 29-2021 Feb 29", x),
            x >= d(2020, 2, 29) && x <= d(2021, 2, 28),
            "{x}"
        );
        assert_eq!(applies("2021 Feb 29", x), false, "{x}");
        assert_eq!(applies("2020 Dec 31+", x), x >= d(2020, 12, 31), "{x}");
        assert_eq!(applies("Oct 15+", x), md >= (10, 15), "{x}");
        assert_eq!(applies("Jan 20-10", x), md >= (1, 20) && md <= (2, 10), "{x}");
        assert_eq!(applies("Dec 20-10", x), md >= (12, 20) || md <= (1, 10), "{x}");
    }
}

// ---------------------------------------------------------------------------
// Batch 3
// ---------------------------------------------------------------------------

#[test]
fn p00_print_parses() {
    for e in [
        "2020-2022 Dec 25",
        "2020-2022Dec 25",
        "2020,2021 Jan",
        "2020 Jan",
        "2020Jan",
        "2020 Jan 5",
        "2020 week 5",
        "2020-2022 week 5 Mo",
        "Jan 1 +Mo +3 days",
        "Jan 1 +Mo",
        "Jan 1+Mo",
        "Jan 31 +Mo-Feb 5",
        "week 50-10/2",
        "week 53-1",
        "Mo[3-1]",
        "PH Mo",
        "Mo PH",
        "Mo-Fr[1]",
        "easter -2 days",
        "easter-easter +7 days",
        "2024 easter+",
        "Jan 1 +5 days+",
        "Mar 1-2024 Dec 31",
        "2020Jan-Mar,Aug-Dec",
        "Jan 5-10,20-25",
        "10:00-12:00/30",
        "10:00-12:00/01:30",
        "10:00+",
        "24:00-26:00",
        "Mo 10:00-12:00,Tu 14:00-16:00",
        "Mo,We[1]",
        "We[1],Mo",
        "Jan Mo[1]",
        "2020 Mo",
        "1900-9999/0",
        "Dec 25-Jan 5 -Mo",
    ] {
        match OpeningHours::parse(e) {
            Ok(oh) => println!("OK   {e:40} => {oh}"),
            Err(err) => println!("ERR  {e:40} => {}", err.to_string().lines().next().unwrap_or("")),
        }
    }
}

/// Independent computation of easter (Oudin / Tondering).
fn easter_ref(year: i32) -> NaiveDate {
    let g = year % 19;
    let c = year / 100;
    let h = (c - c / 4 - (8 * c + 13) / 25 + 19 * g + 15) % 30;
    let i = h - (h / 28) * (1 - (29 / (h + 1)) * ((21 - g) / 11));
    let j = (year + year / 4 + i + 2 - c + c / 4) % 7;
    let l = i - j;
    let month = 3 + (l + 40) / 44;
    let day = l + 28 - 31 * (month / 4);
    d(year, month as u32, day as u32)
}

// Idea 21: easter for every year
#[test]
fn i21_easter_all_years() {
    assert_eq!(easter_ref(2024), d(2024, 3, 31));
    assert_eq!(easter_ref(2025), d(2025, 4, 20));
    let oh = OpeningHours::parse("easter").unwrap();
    let good_friday = OpeningHours::parse("easter -2 days").unwrap();
    let whit = OpeningHours::parse("easter +49 days-easter +50 days").unwrap();
    for y in 1900..=9999 {
        let e = easter_ref(y);
        assert!(!sched_oh(&oh, e).is_empty(), "easter {y}");
        assert!(sched_oh(&oh, e + Duration::days(1)).is_empty(), "easter {y}");
        assert!(sched_oh(&oh, e - Duration::days(1)).is_empty(), "easter {y}");
        assert!(!sched_oh(&good_friday, e - Duration::days(2)).is_empty(), "gf {y}");
        assert!(sched_oh(&good_friday, e).is_empty(), "gf {y}");
        assert!(!sched_oh(&whit, e + Duration::days(49)).is_empty(), "whit {y}");
        assert!(!sched_oh(&whit, e + Duration::days(50)).is_empty(), "whit {y}");
        assert!(sched_oh(&whit, e + Duration::days(51)).is_empty(), "whit {y}");
        assert!(sched_oh(&whit, e + Duration::days(48)).is_empty(), "whit {y}");
    }
}

// Idea 22: weeks, brute force
#[test]
fn i22_weeks_bruteforce() {
    let cases: Vec<(&str, Box<dyn Fn(u32) -> bool>)> = vec![
        ("week 1", Box::new(|w| w == 1)),
        ("week 53", Box::new(|w| w == 53)),
        ("week 52-53", Box::new(|w| w >= 52)),
        ("week 2-10/4", Box::new(|w| [2, 6, 10].contains(&w))),
        ("week 1-53/2", Box::new(|w| w % 2 == 1)),
        ("week 53-1", Box::new(|w| w == 53 || w == 1)),
        ("week 50-2", Box::new(|w| w >= 50 || w <= 2)),
        ("week 1,3,10-12", Box::new(|w| w == 1 || w == 3 || (10..=12).contains(&w))),
        ("week 10-10/3", Box::new(|w| w == 10)),
    ];
    for (expr, model) in cases {
        let oh = OpeningHours::parse(expr).unwrap();
        for start in [d(1900, 1, 1), d(2019, 1, 1), d(9995, 1, 1)] {
            for x in start.iter_days().take(5 * 366) {
                if x.year() > 9999 {
                    break;
                }
                assert_eq!(
                    !sched_oh(&oh, x).is_empty(),
                    model(x.iso_week().week()),
                    "{expr} {x}"
                );
            }
        }
    }
}

// Idea 23: the weekday offset comes first, then the day offset
#[test]
fn i23_wday_offset_then_day_offset() {
    // 2025-01-01 is a Wednesday: next Monday is 2025-01-06, three days later is 2025-01-09
    let e = "Jan 1+Mo +3 days";
    let found = days_matching(e, d(2025, 1, 1), d(2025, 1, 31));
    assert_eq!(found, vec![d(2025, 1, 9)], "judgement call on the order of offsets");
}

#[test]
fn i23b_wday_offset_alone() {
    // 2025-01-01 is a Wednesday
    assert_eq!(days_matching("Jan 1+Mo", d(2024, 12, 20), d(2025, 1, 31)), vec![d(2025, 1, 6)]);
    assert_eq!(days_matching("Jan 1-Mo", d(2024, 12, 20), d(2025, 1, 31)), vec![d(2024, 12, 30)]);
    assert_eq!(days_matching("Jan 1+We", d(2024, 12, 20), d(2025, 1, 31)), vec![d(2025, 1, 1)]);
    assert_eq!(
        days_matching("Dec 25-Su -21 days", d(2024, 11, 1), d(2024, 12, 31)),
        vec![d(2024, 12, 1)]
    );
}

// Idea 24: date ranges at the limits of the supported range of dates
#[test]
fn i24_bounds_of_time() {
    for x in d(1900, 1, 1).iter_days().take(400).chain(d(9998, 12, 1).iter_days().take(396)) {
        let (m, dd) = (x.month(), x.day());
        let md = (m, dd);
        assert_eq!(applies("Dec 25-Jan 5", x), md >= (12, 25) || md <= (1, 5), "{x}");
        assert_eq!(applies("Dec 31 +1 day", x), md == (1, 1), "{x}");
        assert_eq!(applies("Jan 1 -1 day", x), md == (12, 31), "{x}");
        assert_eq!(applies("Nov-Feb", x), m >= 11 || m <= 2, "{x}");
        assert_eq!(applies("Su[-1]", x), x.weekday() == Weekday::Sun && (x + Duration::days(7)).month() != m, "{x}");
        assert_eq!(applies("9999Dec", x), x.year() == 9999 && m == 12, "{x}");
        assert_eq!(applies("1900Jan", x), x.year() == 1900 && m == 1, "{x}");
        assert_eq!(applies("9999 Dec 25-Jan 5", x), x >= d(9999, 12, 25), "{x}");
        assert_eq!(applies("9999Nov-Feb", x), x >= d(9999, 11, 1), "{x}");
        assert_eq!(applies("1900-9999", x), true, "{x}");
        assert_eq!(applies("1901+", x), x.year() >= 1901, "{x}");
    }
    assert_eq!(sched("22:00-26:00", d(9999, 12, 31)), vec![(0, 120, Open), (1320, 1440, Open)]);
}

// Idea 25: time spans
#[test]
fn i25_time_spans() {
    // 2024-06-03 is a Monday
    let mon = d(2024, 6, 3);
    let tue = d(2024, 6, 4);
    let wed = d(2024, 6, 5);
    assert_eq!(sched("Mo 20:00-04:00", mon), vec![(1200, 1440, Open)]);
    assert_eq!(sched("Mo 20:00-04:00", tue), vec![(0, 240, Open)]);
    assert_eq!(sched("Mo 20:00-28:00", tue), vec![(0, 240, Open)]);
    assert_eq!(sched("Mo 12:00-12:00", mon), vec![(720, 1440, Open)]);
    assert_eq!(sched("Mo 12:00-12:00", tue), vec![(0, 720, Open)]);
    assert_eq!(sched("Mo 12:00-36:00", tue), vec![(0, 720, Open)]);
    assert_eq!(sched("Mo 00:00-48:00", tue), vec![(0, 1440, Open)]);
    assert_eq!(sched("Mo 00:00-48:00", wed), vec![]);
    assert_eq!(sched("Mo 10:00-14:00,12:00-16:00", mon), vec![(600, 960, Open)]);
    assert_eq!(sched("Mo 22:00-26:00,01:00-03:00; Tu 23:00-24:00 unknown", tue), vec![(1380, 1440, Unknown)]);
    assert_eq!(sched("Mo,Tu 22:00-26:00,01:00-03:00", tue), vec![(0, 180, Open), (1320, 1440, Open)]);
    assert_eq!(sched("Mo 24:00-26:00", tue), vec![(0, 120, Open)]);
    assert_eq!(sched("Mo 10:00-12:00 unknown, Mo 11:00-13:00", mon), vec![(600, 660, Unknown), (660, 780, Open)]);
    assert_eq!(sched("Mo-Su; Sa 22:00-26:00 off", d(2024, 6, 9)), vec![(120, 1440, Open)]);
}

// Idea 26: start after end because of a weekday offset: the range is empty that year
#[test]
fn i26_inverted_by_offset() {
    // 2023-01-31 is a Tuesday, the next monday is 2023-02-06, after Feb 5
    let e = "Jan 31+Mo-Feb 5";
    assert!(applies(e, d(2025, 2, 4)), "2025-01-31 is a Friday, next monday is Feb 3");
    assert!(!applies(e, d(2023, 6, 1)), "judgement call: inverted interval wraps a whole year");
}

// ---------------------------------------------------------------------------
// Batch 4: random overlay of rules (no day selectors involved except weekdays)
// ---------------------------------------------------------------------------

struct Lcg(u64);
impl Lcg {
    fn next(&mut self) -> u64 {
        self.0 = self.0.wrapping_mul(6364136223846793005).wrapping_add(1442695040888963407);
        self.0 >> 33
    }
    fn below(&mut self, n: u64) -> u64 {
        self.next() % n
    }
}

fn per_minute(s: &[(u16, u16, RuleKind)]) -> Vec<RuleKind> {
    let mut res = vec![RuleKind::Closed; 1440];
    for (a, b, k) in s {
        for m in *a..*b {
            res[m as usize] = *k;
        }
    }
    res
}

// Idea 27: additional rules and closed rules overlay minute per minute, including spans that
// continue after midnight (every rule applies every day here).
#[test]
fn i27_random_overlay_every_day() {
    let mut rng = Lcg(42);
    let kinds = [("open", RuleKind::Open), ("unknown", RuleKind::Unknown), ("off", RuleKind::Closed)];

    for _ in 0..3000 {
        let n = 1 + rng.below(5);
        let mut expr = String::new();
        let mut model = vec![RuleKind::Closed; 1440];

        for i in 0..n {
            let start = rng.below(24 * 4) * 15;
            let len = 15 + rng.below(24 * 4) * 15; // up to 24h15
            let end = start + len;
            if end > 48 * 60 || len > 24 * 60 {
                continue;
            }
            let (kname, kind) = kinds[rng.below(3) as usize];
            let sep = if expr.is_empty() {
                ""
            } else if rng.below(2) == 0 {
                ", "
            } else {
                "; "
            };
            let normal_non_closed = sep != ", " && kind != RuleKind::Closed;
            if normal_non_closed {
                // Replaces everything, every day
                model = vec![RuleKind::Closed; 1440];
            }
            let _ = i;
            expr += &format!(
                "{sep}{:02}:{:02}-{:02}:{:02} {kname}",
                start / 60,
                start % 60,
                end / 60,
                end % 60
            );
            for m in start..end {
                model[(m % 1440) as usize] = kind;
            }
        }

        if expr.is_empty() {
            continue;
        }

        let got = per_minute(&sched(&expr, d(2024, 6, 5)));
        assert!(got == model, "{expr}: {:?}", sched(&expr, d(2024, 6, 5)));
    }
}

// ---------------------------------------------------------------------------
// Batch 5: conjunction of selectors, lists
// ---------------------------------------------------------------------------

#[test]
fn i28_conjunctions() {
    for x in d(2019, 12, 1).iter_days().take(3 * 366 + 60) {
        let (y, m, dd, w, wd) = (x.year(), x.month(), x.day(), x.iso_week().week(), x.weekday());
        let first_mon = wd == Weekday::Mon && dd <= 7;
        assert_eq!(applies("Jan Mo[1]", x), m == 1 && first_mon, "{x}");
        assert_eq!(applies("2020 Mo", x), y == 2020 && wd == Weekday::Mon, "{x}");
        assert_eq!(applies("week 5 Mo", x), w == 5 && wd == Weekday::Mon, "{x}");
        assert_eq!(
            applies("2020-2021Jan-Mar week 2-9 Tu,Th", x),
            (2020..=2021).contains(&y)
                && m <= 3
                && (2..=9).contains(&w)
                && matches!(wd, Weekday::Tue | Weekday::Thu),
            "{x}"
        );
        assert_eq!(applies("Jan 1,Jul 14", x), (m, dd) == (1, 1) || (m, dd) == (7, 14), "{x}");
        assert_eq!(applies("Jan-Mar,Jul", x), m <= 3 || m == 7, "{x}");
        assert_eq!(
            applies("2020-2021Dec 25", x),
            (2020..=2021).contains(&y) && (m, dd) == (12, 25),
            "{x}"
        );
        assert_eq!(
            applies("Dec 24-26 Sa,Su", x),
            m == 12 && (24..=26).contains(&dd) && matches!(wd, Weekday::Sat | Weekday::Sun),
            "{x}"
        );
        assert_eq!(
            applies("2020 Feb 1-2021 Mar 3 We", x),
            x >= d(2020, 2, 1) && x <= d(2021, 3, 3) && wd == Weekday::Wed,
            "{x}"
        );
    }
}

// Idea 29: rule separators with day selectors (no spans over midnight)
#[test]
fn i29_rule_separators() {
    let mon = d(2024, 6, 3);
    let tue = d(2024, 6, 4);
    let sat = d(2024, 6, 8);
    let e = "Mo-Fr 10:00-18:00; We off; Tu 12:00-14:00, Tu 16:00-17:00 unknown || Sa 09:00-10:00 || unknown \"call\"";
    assert_eq!(sched(e, mon), vec![(600, 1080, Open)]);
    assert_eq!(sched(e, tue), vec![(720, 840, Open), (960, 1020, Unknown)]);
    assert_eq!(sched(e, d(2024, 6, 5)), vec![(0, 1440, Unknown)]); // judgement: closed day, js falls back too
    assert_eq!(sched(e, sat), vec![(540, 600, Open)]);
    assert_eq!(sched(e, d(2024, 6, 9)), vec![(0, 1440, Unknown)]);

    // Additional rule extends
    assert_eq!(
        sched("Mo-Fr 10:00-12:00, Mo 14:00-16:00", mon),
        vec![(600, 720, Open), (840, 960, Open)]
    );
    // Later normal rule replaces
    assert_eq!(sched("Mo-Fr 10:00-12:00; Mo 14:00-16:00", mon), vec![(840, 960, Open)]);
    assert_eq!(sched("Mo-Fr 10:00-12:00; Mo 14:00-16:00", tue), vec![(600, 720, Open)]);
    // Later closed rule overlays
    assert_eq!(
        sched("Mo-Fr 10:00-16:00; Mo 12:00-13:00 off", mon),
        vec![(600, 720, Open), (780, 960, Open)]
    );
    // Fallback only when nothing else
    assert_eq!(sched("Mo 10:00-12:00 || 08:00-09:00", mon), vec![(600, 720, Open)]);
    assert_eq!(sched("Mo 10:00-12:00 || 08:00-09:00", tue), vec![(480, 540, Open)]);
    // A rule after a fallback
    assert_eq!(
        sched("Mo 10:00-12:00 || Tu 08:00-09:00; We 01:00-02:00", d(2024, 6, 5)),
        vec![(60, 120, Open)]
    );
    assert_eq!(
        sched("Mo 10:00-12:00 || Tu 08:00-09:00, Mo 13:00-14:00", mon),
        vec![(600, 720, Open), (780, 840, Open)]
    );
}

// Idea 30: a comment alone means "unknown" in the specification and in opening_hours.js
#[test]
fn i30_comment_alone() {
    let s = sched("Mo \"by appointment\"", d(2024, 6, 3));
    assert_eq!(s, vec![(0, 1440, Unknown)], "judgement call: comment alone");
}

// Idea 31: open end
#[test]
fn i31_open_end() {
    let s = sched("Mo 10:00+", d(2024, 6, 3));
    // judgement call / missing feature
    assert_eq!(s, vec![(600, 1440, Open)]);
}

// ---------------------------------------------------------------------------
// Batch 6: the iterator (which skips days with hints) agrees with day schedules
// ---------------------------------------------------------------------------

fn check_iter_vs_schedule(expr: &str, ctx: &Context, from: NaiveDate, days: usize) {
    let oh = OpeningHours::parse(expr)
        .unwrap_or_else(|e| panic!("{expr:?} must parse: {e}"))
        .with_context(ctx.clone());
    let start = from.and_hms_opt(0, 0, 0).unwrap();
    let end = start + Duration::days(days as i64);
    let mut from_iter: Vec<(chrono::NaiveDateTime, chrono::NaiveDateTime, RuleKind)> = vec![];
    for dtr in oh.iter_range(start, end) {
        if dtr.kind != RuleKind::Closed {
            match from_iter.last_mut() {
                Some(last) if last.1 == dtr.range.start && last.2 == dtr.kind => last.1 = dtr.range.end,
                _ => from_iter.push((dtr.range.start, dtr.range.end, dtr.kind)),
            }
        }
    }
    let mut from_sched: Vec<(chrono::NaiveDateTime, chrono::NaiveDateTime, RuleKind)> = vec![];
    for x in from.iter_days().take(days) {
        let midnight = x.and_hms_opt(0, 0, 0).unwrap();
        for (a, b, k) in sched_oh(&oh, x) {
            let (a, b) = (
                midnight + Duration::minutes(a.into()),
                midnight + Duration::minutes(b.into()),
            );
            match from_sched.last_mut() {
                Some(last) if last.1 == a && last.2 == k => last.1 = b,
                _ => from_sched.push((a, b, k)),
            }
        }
    }
    assert!(from_iter == from_sched, "{expr}: iterator and schedules differ\niter  = {:?}\nsched = {:?}",
        from_iter.iter().zip(from_sched.iter()).find(|(a, b)| a != b), from_iter.len().cmp(&from_sched.len()));
}

#[test]
fn i32_iterator_agrees_with_schedules() {
    let ctx = ctx_with(
        &[d(2024, 2, 29), d(2024, 12, 31), d(2025, 1, 1), d(2025, 5, 1), d(2026, 12, 25)],
        &[d(2024, 7, 14), d(2024, 7, 15), d(2025, 2, 28)],
    );
    for e in [
        "2024-2026/2",
        "2025+",
        "2020-2030/3 Mo 10:00-12:00",
        "Nov-Feb",
        "2024Nov-Feb",
        "Dec 25-Jan 5",
        "Feb 29",
        "Feb 29-Mar 5 22:00-26:00",
        "easter -2 days-easter +1 day",
        "easter",
        "2024 Dec 25-Jan 5",
        "2025 Feb 29-Mar 5",
        "week 1",
        "week 53",
        "week 52-53",
        "week 2-10/4",
        "week 1-53/2 Fr",
        "week 53-1",
        "week 50-2",
        "PH",
        "PH +1 day",
        "PH -1 day 22:00-26:00",
        "SH 10:00-12:00; PH off",
        "Mo-Fr 10:00-12:00; PH off; SH 22:00-26:00",
        "Mo[1] 20:00-26:00",
        "Su[-1] +1 day",
        "Jan Mo[1]",
        "Jan 1+Mo",
        "Dec 25-Su -21 days-Dec 24",
        "Dec 31 22:00-26:00",
        "Mo-Su 10:00-22:00; Fr,Sa 10:00-26:00",
        "Mo 22:00-26:00 || 08:00-09:00",
        "Jan-Mar 10:00-12:00; Feb off || Mo unknown",
        "2024 easter-Dec 31",
        "Jan 1 +400 days",
        "Feb 29-Feb 30",
        "Oct 15+",
        "2025 Mar 1+",
    ] {
        check_iter_vs_schedule(e, &ctx, d(2023, 6, 1), 4 * 366);
    }
}

// ---------------------------------------------------------------------------
// Batch 7: variants
// ---------------------------------------------------------------------------

// Offsets of barely more than a year are already lost
#[test]
fn i05d_offset_just_over_a_year() {
    // 2021-12-31 + 366 days = 2023-01-01
    assert_eq!(d(2021, 12, 31) + Duration::days(366), d(2023, 1, 1));
    assert!(applies("Dec 31 +366 days", d(2023, 1, 1)));
}

#[test]
fn i05e_negative_offset_just_over_a_year() {
    // 2025-01-01 - 366 days = 2023-12-31
    assert_eq!(d(2025, 1, 1) - Duration::days(366), d(2023, 12, 31));
    assert!(applies("Jan 1 -366 days", d(2023, 12, 31)));
}

#[test]
fn i01b_dated_easter_to_easter_offset() {
    let e = "2024 easter-easter +7 days";
    assert!(applies(e, d(2024, 4, 2)));
    assert!(!applies(e, d(2030, 2, 1)), "2030-02-01 must not match {e}");
}

#[test]
fn i01c_undated_start_dated_end() {
    // judgement call on what this means, but surely not "always"
    let e = "Mar 1-2024 Dec 31";
    assert!(!applies(e, d(2030, 2, 1)), "2030-02-01 must not match {e}");
    assert!(!applies(e, d(2020, 2, 1)), "2020-02-01 must not match {e}");
}

#[test]
fn i06b_dated_leap_day_range() {
    let e = "2021 Feb 29-Feb 29";
    assert!(days_matching(e, d(2020, 1, 1), d(2023, 1, 1)).is_empty(), "{e}");
}

#[test]
fn i06c_dated_apr_31() {
    let e = "2021 Apr 31-Apr 31";
    assert!(days_matching(e, d(2020, 1, 1), d(2023, 1, 1)).is_empty(), "{e}");
}

#[test]
fn i13b_sh_space_weekdays() {
    // 2024-07-13 is a Saturday, 2024-07-15 a Monday, 2024-07-22 a Monday out of holidays
    let ctx = ctx_with(&[], &[d(2024, 7, 13), d(2024, 7, 14), d(2024, 7, 15)]);
    assert!(!sched_ctx("SH Mo-Fr 10:00-12:00", &ctx, d(2024, 7, 15)).is_empty());
    assert!(
        sched_ctx("SH Mo-Fr 10:00-12:00", &ctx, d(2024, 7, 22)).is_empty(),
        "judgement call: a monday out of school holidays"
    );
}

#[test]
fn i08b_fallback_unknown_keeps_spill() {
    let e = "Mo 22:00-26:00 || unknown";
    let tue = sched(e, d(2024, 6, 4));
    assert_eq!(tue, vec![(0, 120, Open), (120, 1440, Unknown)]);
}

// ---------------------------------------------------------------------------
// Batch 8: full sweep 1900..=9999 for a few selectors
// ---------------------------------------------------------------------------
#[test]
fn i33_full_sweep() {
    let exprs: Vec<(&str, Box<dyn Fn(NaiveDate) -> bool>)> = vec![
        (
            "Dec 25-Jan 5",
            Box::new(|x| (x.month(), x.day()) >= (12, 25) || (x.month(), x.day()) <= (1, 5)),
        ),
        ("Feb 29", Box::new(|x| (x.month(), x.day()) == (2, 29))),
        ("Feb 29-Mar 1", Box::new(|x| (x.month(), x.day()) == (2, 29) || (x.month(), x.day()) == (3, 1))),
        ("Mar 1 -1 day", Box::new(|x| x.succ_opt().unwrap().month() == 3 && x.month() == 2)),
        ("Fr[5]", Box::new(|x| x.weekday() == Weekday::Fri && x.day() >= 29)),
        ("week 53", Box::new(|x| x.iso_week().week() == 53)),
        ("week 10-20/5 We", Box::new(|x| [10, 15, 20].contains(&x.iso_week().week()) && x.weekday() == Weekday::Wed)),
        ("1999-9000/7Jun", Box::new(|x| x.month() == 6 && (1999..=9000).contains(&x.year()) && (x.year() - 1999) % 7 == 0)),
        ("Nov-Jan Su", Box::new(|x| (x.month() >= 11 || x.month() == 1) && x.weekday() == Weekday::Sun)),
        ("Jan 31-Feb 31", Box::new(|x| (x.month(), x.day()) == (1, 31) || x.month() == 2)),
    ];

    for (expr, model) in exprs {
        let oh = OpeningHours::parse(expr).unwrap();
        let mut x = d(1900, 1, 1);
        let last = d(9999, 12, 31);
        loop {
            let got = !oh.schedule_at(x).is_empty();
            assert_eq!(got, model(x), "{expr} {x}");
            if x == last {
                break;
            }
            x = x.succ_opt().unwrap();
        }
    }
}

// ---------------------------------------------------------------------------
// Batch 9
// ---------------------------------------------------------------------------

// A fallback rule which does not even apply on Tuesday removes the end of Monday's span
#[test]
fn i08c_unrelated_fallback_drops_spill() {
    let tue = d(2024, 6, 4);
    assert_eq!(sched("Mo 22:00-26:00", tue), vec![(0, 120, Open)]);
    assert_eq!(sched("Mo 22:00-26:00 || We 10:00-12:00", tue), vec![(0, 120, Open)]);
}

// The replaced rule continues after midnight, not the rule which replaced it
#[test]
fn i09c_spill_of_replaced_rule() {
    let mon = d(2024, 6, 3);
    let tue = d(2024, 6, 4);
    let e = "Mo 22:00-25:00; Mo 23:00-26:00";
    assert_eq!(sched(e, mon), vec![(1380, 1440, Open)]);
    assert_eq!(sched(e, tue), vec![(0, 120, Open)]);
}

// DST like expression
#[test]
fn i34_last_sundays() {
    let e = "Mar 31-Su-Oct 31-Su";
    for y in 2018..2032 {
        let mut start = d(y, 3, 31);
        while start.weekday() != Weekday::Sun {
            start = start.pred_opt().unwrap();
        }
        let mut end = d(y, 10, 31);
        while end.weekday() != Weekday::Sun {
            end = end.pred_opt().unwrap();
        }
        for x in d(y, 1, 1).iter_days().take_while(|x| x.year() == y) {
            assert_eq!(applies(e, x), x >= start && x <= end, "{x}");
        }
    }
}

// Advent
#[test]
fn i35_advent() {
    let e = "Dec 25-Su -21 days-Dec 24";
    for y in 2018..2032 {
        let mut start = d(y, 12, 25);
        while start.weekday() != Weekday::Sun {
            start = start.pred_opt().unwrap();
        }
        let start = start - Duration::days(21);
        for x in d(y, 1, 1).iter_days().take_while(|x| x.year() == y) {
            assert_eq!(applies(e, x), x >= start && x <= d(y, 12, 24), "{x}");
        }
    }
}

// Easter ranges
#[test]
fn i36_easter_ranges() {
    for y in [1900, 1999, 2024, 2025, 2038, 9999] {
        let e = easter_ref(y);
        for x in d(y, 1, 1).iter_days().take_while(|x| x.year() == y) {
            assert_eq!(applies("easter -2 days-easter +1 day", x), x >= e - Duration::days(2) && x <= e + Duration::days(1), "{x}");
            assert_eq!(applies("easter-May 31", x), x >= e && x <= d(y, 5, 31), "{x}");
            assert_eq!(applies("Mar 1-easter", x), x >= d(y, 3, 1) && x <= e, "{x}");
            assert_eq!(applies("easter+", x), x >= e, "{x}");
            assert_eq!(applies("easter -2 days,easter +1 day", x), x == e - Duration::days(2) || x == e + Duration::days(1), "{x}");
            assert_eq!(applies("easter+Sa", x), x == e + Duration::days(6), "{x}");
        }
    }
}

#[test]
fn p01_print_facts() {
    let span = |e: &str, a: NaiveDate, b: NaiveDate| {
        let v = days_matching(e, a, b);
        println!("FACT {e:32} in {a}..{b}: {} days, first {:?}, last {:?}", v.len(), v.first(), v.last());
    };
    span("Feb 29-Feb 30", d(2021, 1, 1), d(2025, 12, 31));
    span("2021 Feb 29-Feb 29", d(2020, 1, 1), d(2023, 12, 31));
    span("2024 Jan 1-2024 easter", d(1900, 1, 1), d(2030, 12, 31));
    span("2024 easter-2024 Dec 31", d(1900, 1, 1), d(2100, 12, 31));
    span("2024 easter-Dec 31", d(1900, 1, 1), d(2100, 12, 31));
    span("2024 Jan 1-easter", d(1900, 1, 1), d(2100, 12, 31));
    span("Dec 31 +366 days", d(2020, 1, 1), d(2030, 12, 31));
    println!("FACT {:?}", days_matching("Dec 31 +366 days", d(2020, 1, 1), d(2030, 12, 31)));
    println!("FACT {:?}", days_matching("Jan 1 +800 days", d(2020, 1, 1), d(2030, 12, 31)));
    let oh = OpeningHours::parse("week 50-10/2").unwrap();
    let mut weeks: Vec<u32> = d(2020, 1, 1)
        .iter_days()
        .take(366 * 2)
        .filter(|x| !oh.schedule_at(*x).is_empty())
        .map(|x| x.iso_week().week())
        .collect();
    weeks.sort();
    weeks.dedup();
    println!("FACT week 50-10/2 => {weeks:?}");
    let oh = OpeningHours::parse("Mo-Su 10:00-22:00; Fr,Sa 10:00-26:00").unwrap();
    println!(
        "FACT state Sunday 2024-06-09 01:00 = {:?}",
        oh.state(d(2024, 6, 9).and_hms_opt(1, 0, 0).unwrap())
    );
    println!("FACT {:?}", days_matching("Jan 1+Mo +3 days", d(2025, 1, 1), d(2025, 1, 31)));
}
