//! Hunt for violations of property C16 (interval-size bound is a sound approximation).

use chrono::{DateTime, Duration, NaiveDate, NaiveDateTime, TimeDelta, TimeZone};
use chrono_tz::Tz;
use opening_hours::localization::{Coordinates, Country, TzLocation};
use opening_hours::{Context, OpeningHours, RuleKind};

fn dt(s: &str) -> NaiveDateTime {
    NaiveDateTime::parse_from_str(s, "%Y-%m-%d %H:%M:%S").unwrap()
}

fn end_of_time() -> NaiveDateTime {
    NaiveDate::from_ymd_opt(10_000, 1, 1)
        .unwrap()
        .and_hms_opt(0, 0, 0)
        .unwrap()
}

/// Kind at a local instant, by pointwise evaluation of the daily schedule.
fn kind_at(oh: &OpeningHours, t: NaiveDateTime) -> RuleKind {
    let mins = (t.time() - chrono::NaiveTime::MIN).num_minutes() as u16;
    for tr in oh.schedule_at(t.date()) {
        if tr.range.start.mins_from_midnight() <= mins && mins < tr.range.end.mins_from_midnight() {
            return tr.kind;
        }
    }
    RuleKind::Closed
}

/// Independent oracle: walk the daily schedules day after day (no hints), up to `horizon_days`
/// days. `Ok(Some(t))`: exact next change, `Ok(None)`: no change until the end of time,
/// `Err(())`: no change within the horizon.
fn oracle_next_change(
    oh: &OpeningHours,
    q: NaiveDateTime,
    horizon_days: i64,
) -> Result<Option<NaiveDateTime>, ()> {
    if q >= end_of_time() {
        return Ok(None);
    }
    let kind = kind_at(oh, q);
    let mut date = q.date();
    for _ in 0..=horizon_days {
        if date >= end_of_time().date() {
            // closed for ever after the end of time
            return if kind == RuleKind::Closed {
                Ok(None)
            } else {
                Ok(None) // the library reports none at DATE_END
            };
        }
        for tr in oh.schedule_at(date) {
            let start = date.and_hms_opt(0, 0, 0).unwrap()
                + Duration::minutes(tr.range.start.mins_from_midnight().into());
            if start > q && tr.kind != kind {
                return Ok(Some(start));
            }
        }
        date = date.succ_opt().unwrap();
    }
    Err(())
}

/// Check the property text for one (expression, bound, instant), naive time.
fn check_naive(expr: &str, ctx: Context, bound: TimeDelta, q: NaiveDateTime) -> Result<(), String> {
    let exact_oh = OpeningHours::parse(expr).unwrap().with_context(ctx.clone());
    let bound_oh = OpeningHours::parse(expr)
        .unwrap()
        .with_context(ctx.approx_bound_interval_size(bound));

    let st_exact = exact_oh.state(q);
    let st_bound = bound_oh.state(q);
    if st_exact != st_bound {
        return Err(format!(
            "{expr:?} B={bound:?} q={q}: state {st_bound:?} with bound, {st_exact:?} without"
        ));
    }

    let horizon = bound.num_days().clamp(0, 400) + 3;
    let oracle = if bound.num_days() > 60 {
        // the day-by-day walk is too long: the unbounded evaluation is the exact answer
        Ok(exact_oh.next_change(q))
    } else {
        oracle_next_change(&exact_oh, q, horizon)
    };
    let got = bound_oh.next_change(q);
    let margin = bound.checked_sub(&TimeDelta::hours(24));

    match oracle {
        Ok(Some(e)) => {
            let dist = e - q;
            if margin.is_some_and(|m| dist <= m) {
                if got != Some(e) {
                    return Err(format!(
                        "{expr:?} B={bound:?} q={q}: exact {e} lies {dist:?} <= B-24h after q, got {got:?}"
                    ));
                }
            } else if dist > bound {
                if got.is_some() {
                    return Err(format!(
                        "{expr:?} B={bound:?} q={q}: exact {e} lies {dist:?} > B after q, got {got:?}"
                    ));
                }
            } else if got.is_some() && got != Some(e) {
                return Err(format!(
                    "{expr:?} B={bound:?} q={q}: exact {e}, got {got:?} (neither exact nor none)"
                ));
            }
        }
        Ok(None) => {
            if got.is_some() {
                return Err(format!(
                    "{expr:?} B={bound:?} q={q}: no change ever, got {got:?}"
                ));
            }
        }
        Err(()) => {
            // no change within B + 3 days
            if got.is_some() {
                return Err(format!(
                    "{expr:?} B={bound:?} q={q}: no change within {horizon} days, got {got:?}"
                ));
            }
        }
    }
    Ok(())
}

fn bounds() -> Vec<TimeDelta> {
    vec![
        TimeDelta::MIN,
        TimeDelta::days(-400),
        TimeDelta::days(-1),
        TimeDelta::seconds(-1),
        TimeDelta::zero(),
        TimeDelta::nanoseconds(1),
        TimeDelta::seconds(59),
        TimeDelta::minutes(1),
        TimeDelta::hours(1),
        TimeDelta::hours(23) + TimeDelta::minutes(59),
        TimeDelta::hours(24),
        TimeDelta::hours(24) + TimeDelta::nanoseconds(1),
        TimeDelta::hours(25),
        TimeDelta::hours(36),
        TimeDelta::days(2),
        TimeDelta::days(2) - TimeDelta::seconds(1),
        TimeDelta::days(3),
        TimeDelta::days(7),
        TimeDelta::days(7) + TimeDelta::milliseconds(1),
        TimeDelta::days(8) - TimeDelta::seconds(30),
        TimeDelta::days(30),
        TimeDelta::days(31),
        TimeDelta::days(59),
        TimeDelta::days(365),
        TimeDelta::days(366),
        TimeDelta::days(367),
        TimeDelta::days(3000),
        TimeDelta::MAX,
    ]
}

const EXPRS: &[&str] = &[
    "24/7",
    "24/7 off",
    "10:00-12:00",
    "Mo-Fr 08:00-18:00",
    "Mo 10:00-12:00",
    "Mo 00:00-24:00",
    "Fr 22:00-26:00",
    "Fr 22:00-48:00",
    "Mo-Su 00:00-24:00; Jan 10 off",
    "Jan 10 10:00-12:00",
    "Jan 10 00:00-24:00",
    "Jan 10",
    "Jan 10-Feb 20",
    "Dec 20-Jan 10",
    "Feb 29",
    "Feb 29 23:59-24:00",
    "2024 Feb 29",
    "2024-2030Jun",
    "2025",
    "2025+",
    "2020-2030/3",
    "week 1",
    "week 53",
    "week 2-52/5 Mo 10:00-11:00",
    "Mo[1]",
    "Su[-1] 10:00-12:00",
    "easter",
    "easter -2 days 10:00-12:00",
    "Jan 01-Dec 31 00:00-23:59",
    "00:01-24:00",
    "00:00-23:59",
    "Mo-Sa 00:00-24:00; Su 00:00-00:01 off",
    "sunrise-sunset",
    "Jan sunrise-sunset",
    "24/7 unknown; Mar 03 10:00-10:01 off",
    "Jan 10 open \"a\"; Jan 11 open \"b\"; Jan 12 unknown",
    "Mo-Fr 10:00-12:00 || Jan unknown",
    "Jan-Mar 00:00-24:00, Apr 00:00-12:00",
    "Jan 31 22:00-26:00; Feb off",
    "2024 Jan 10-2025 Mar 20",
    "Mo,We,Fr 23:00-25:00",
    "1900 Jan 01 00:00-00:01",
    "9999 Dec 31 23:00-24:00",
    "9999 Dec 31 23:00-26:00",
];

fn instants() -> Vec<NaiveDateTime> {
    let mut res = Vec::new();
    for date in [
        "2024-01-09", "2024-01-10", "2024-02-29", "2024-12-31", "2023-02-28", "2020-12-28",
        "2025-06-30", "2000-05-01",
    ] {
        for time in [
            "00:00:00", "00:00:59", "10:00:00", "23:59:59",
        ] {
            res.push(dt(&format!("{date} {time}")));
        }
    }
    res
}

// S01..S20: general sweep of expressions x bounds x instants against the pointwise oracle.
#[test]
fn s01_sweep_naive() {
    let mut failures = Vec::new();
    let started = std::time::Instant::now();
    for expr in EXPRS {
        if started.elapsed().as_secs() > 90 {
            eprintln!("time budget exhausted before {expr:?}");
            break;
        }
        eprintln!("{expr:?} at {:?}", started.elapsed());
        for bound in bounds().into_iter().step_by(2) {
            for q in instants() {
                if let Err(e) = check_naive(expr, Context::default(), bound, q) {
                    failures.push(e);
                }
            }
        }
    }
    for f in failures.iter().take(40) {
        eprintln!("{f}");
    }
    assert!(failures.is_empty(), "{} failures", failures.len());
}

// S21: sub-second instants (nanoseconds) at the end of a day
#[test]
fn s21_subsecond_instants() {
    let mut failures = Vec::new();
    for expr in ["Jan 10 00:00-24:00", "Jan 10-12", "Mo 10:00-12:00", "Fr 22:00-26:00"] {
        for bound in bounds() {
            for base in ["2024-01-09 23:59:59", "2024-01-10 23:59:59", "2024-01-12 23:59:59"] {
                let q = dt(base) + TimeDelta::nanoseconds(999_999_999);
                if let Err(e) = check_naive(expr, Context::default(), bound, q) {
                    failures.push(e);
                }
            }
        }
    }
    for f in &failures {
        eprintln!("{f}");
    }
    assert!(failures.is_empty());
}

// S22: the exact change lies exactly B-24h / exactly B / B+1ns after the instant
#[test]
fn s22_exact_boundaries() {
    let mut failures = Vec::new();
    // open all of Jan 10-19, the change is on Jan 20 00:00
    let expr = "2024 Jan 10-19";
    let change = dt("2024-01-20 00:00:00");
    for q in [
        dt("2024-01-10 00:00:00"),
        dt("2024-01-10 00:00:01"),
        dt("2024-01-10 12:00:00"),
        dt("2024-01-10 23:59:59") + TimeDelta::nanoseconds(999_999_999),
        dt("2024-01-15 23:59:00"),
        dt("2024-01-19 23:59:59"),
    ] {
        let dist = change - q;
        for delta in [
            TimeDelta::zero(),
            TimeDelta::nanoseconds(1),
            TimeDelta::nanoseconds(-1),
            TimeDelta::seconds(1),
            TimeDelta::seconds(-1),
            TimeDelta::minutes(1),
            TimeDelta::minutes(-1),
        ] {
            for bound in [dist + delta, dist + TimeDelta::hours(24) + delta] {
                if let Err(e) = check_naive(expr, Context::default(), bound, q) {
                    failures.push(e);
                }
            }
        }
    }
    for f in &failures {
        eprintln!("{f}");
    }
    assert!(failures.is_empty());
}

// S23: ends of the supported range
#[test]
fn s23_range_ends() {
    let mut failures = Vec::new();
    for expr in [
        "24/7",
        "10:00-12:00",
        "9999 Dec 31 23:00-24:00",
        "9999 Dec 31 23:00-26:00",
        "9999 Dec 01-31",
        "1900 Jan 01 00:00-00:01",
        "1900 Jan 01",
        "1900",
        "Fr 22:00-26:00",
    ] {
        for bound in bounds() {
            for q in [
                dt("1899-12-30 23:59:59"),
                dt("1899-12-31 00:00:00"),
                dt("1899-12-31 23:59:59"),
                dt("1900-01-01 00:00:00"),
                dt("1900-01-01 00:00:30"),
                dt("1900-01-02 00:00:00"),
                dt("1800-06-01 12:00:00"),
                dt("1898-12-31 12:00:00"),
                dt("9999-12-01 00:00:00"),
                dt("9999-12-30 23:59:59"),
                dt("9999-12-31 00:00:00"),
                dt("9999-12-31 22:59:59"),
                dt("9999-12-31 23:00:00"),
                dt("9999-12-31 23:59:59"),
                dt("9998-12-31 23:59:59"),
                end_of_time(),
                end_of_time() + TimeDelta::days(400),
            ] {
                if let Err(e) = check_naive(expr, Context::default(), bound, q) {
                    failures.push(e);
                }
            }
        }
    }
    for f in failures.iter().take(40) {
        eprintln!("{f}");
    }
    assert!(failures.is_empty(), "{} failures", failures.len());
}

// S24: holiday calendars
#[test]
fn s24_holidays() {
    let mut failures = Vec::new();
    let ctx = Context::default().with_holidays(Country::FR.holidays());
    for expr in [
        "PH",
        "PH off",
        "24/7; PH off",
        "PH 10:00-12:00",
        "PH -1 day",
        "SH",
        "Mo-Fr 08:00-18:00; PH off",
        "PH 22:00-26:00",
    ] {
        for bound in bounds() {
            for q in instants() {
                if let Err(e) = check_naive(expr, ctx.clone(), bound, q) {
                    failures.push(e);
                }
            }
        }
    }
    for f in failures.iter().take(40) {
        eprintln!("{f}");
    }
    assert!(failures.is_empty(), "{} failures", failures.len());
}

// S25: daily sweep over two years, a handful of bounds
#[test]
fn s25_daily_sweep() {
    let mut failures = Vec::new();
    for expr in [
        "Jan 10",
        "Dec 20-Jan 10",
        "week 1",
        "easter",
        "Feb 29",
        "Mo[1] 10:00-12:00",
        "2024 Jan 10-2025 Mar 20",
        "Jun-Aug Sa 22:00-27:00",
    ] {
        for bound in [
            TimeDelta::days(1),
            TimeDelta::days(10),
            TimeDelta::days(45),
            TimeDelta::days(180),
            TimeDelta::days(366),
        ] {
            let mut q = dt("2023-12-01 17:31:07");
            while q < dt("2025-12-31 00:00:00") {
                if let Err(e) = check_naive(expr, Context::default(), bound, q) {
                    failures.push(e);
                }
                q += TimeDelta::hours(31);
            }
        }
    }
    for f in failures.iter().take(40) {
        eprintln!("{f}");
    }
    assert!(failures.is_empty(), "{} failures", failures.len());
}

// ---- Time zones: distances are elapsed (absolute) time between two instants ----

type TzOh = OpeningHours<TzLocation<Tz>>;

fn tz_pair(expr: &str, tz: Tz, bound: TimeDelta, coords: Option<Coordinates>) -> (TzOh, TzOh) {
    let mut loc = TzLocation::new(tz);
    if let Some(c) = coords {
        loc = loc.with_coords(c);
    }
    let exact = OpeningHours::parse(expr)
        .unwrap()
        .with_context(Context::default().with_locale(loc.clone()));
    let bounded = OpeningHours::parse(expr).unwrap().with_context(
        Context::default()
            .with_locale(loc)
            .approx_bound_interval_size(bound),
    );
    (exact, bounded)
}

/// Check the property for an aware instant; the unbounded evaluation is the exact answer.
fn check_tz(expr: &str, tz: Tz, bound: TimeDelta, q: DateTime<Tz>) -> Result<(), String> {
    let (exact_oh, bound_oh) = tz_pair(expr, tz, bound, None);
    if exact_oh.state(q) != bound_oh.state(q) {
        return Err(format!("{expr:?} {tz} B={bound:?} q={q}: state differs"));
    }
    let exact = exact_oh.next_change(q);
    let got = bound_oh.next_change(q);
    let margin = bound.checked_sub(&TimeDelta::hours(24));
    match exact {
        Some(e) => {
            let dist = e - q;
            if margin.is_some_and(|m| dist <= m) {
                if got != Some(e) {
                    return Err(format!(
                        "{expr:?} {tz} B={bound:?} q={q}: exact {e} lies {dist:?} <= B-24h after q, got {got:?}"
                    ));
                }
            } else if dist > bound {
                if got.is_some() {
                    return Err(format!(
                        "{expr:?} {tz} B={bound:?} q={q}: exact {e} lies {dist:?} > B after q, got {got:?}"
                    ));
                }
            } else if got.is_some() && got != Some(e) {
                return Err(format!("{expr:?} {tz} B={bound:?} q={q}: exact {e}, got {got:?}"));
            }
        }
        None => {
            if got.is_some() {
                return Err(format!("{expr:?} {tz} B={bound:?} q={q}: no change, got {got:?}"));
            }
        }
    }
    Ok(())
}

// T01: clocks turned forward inside the interval: the local span is one hour longer than the
// elapsed time, exact answer required but none returned.
#[test]
fn t01_tz_spring_forward_exact_required() {
    let tz = chrono_tz::Europe::Paris;
    // Open from Mar 20 00:00 until Apr 04 00:30 (local). DST starts 2024-03-31 02:00 -> 03:00.
    let expr = "2024 Mar 20-Apr 03 00:00-24:00, 2024 Apr 04 00:00-00:30";
    let q = tz.with_ymd_and_hms(2024, 3, 25, 23, 30, 0).unwrap();
    let bound = TimeDelta::days(10);
    let (exact_oh, bound_oh) = tz_pair(expr, tz, bound, None);
    let exact = exact_oh.next_change(q).unwrap();
    assert_eq!(exact, tz.with_ymd_and_hms(2024, 4, 4, 0, 30, 0).unwrap());
    // elapsed time: exactly 9 days = B - 24h
    assert_eq!(exact - q, TimeDelta::days(9));
    assert!(exact - q <= bound - TimeDelta::hours(24));
    assert_eq!(bound_oh.state(q), exact_oh.state(q));
    assert_eq!(
        bound_oh.next_change(q),
        Some(exact),
        "exact answer lies B-24h after the instant: it must be returned"
    );
}

// T02: clocks turned backward inside the interval: the local span is one hour shorter than the
// elapsed time, none required but a change is returned.
#[test]
fn t02_tz_fall_back_none_required() {
    let tz = chrono_tz::Europe::Paris;
    // Open from Oct 15 until Oct 30 00:00 (local). DST ends 2024-10-27 03:00 -> 02:00.
    let expr = "2024 Oct 15-29";
    let q = tz.with_ymd_and_hms(2024, 10, 20, 0, 0, 0).unwrap();
    let bound = TimeDelta::days(10);
    let (exact_oh, bound_oh) = tz_pair(expr, tz, bound, None);
    let exact = exact_oh.next_change(q).unwrap();
    assert_eq!(exact, tz.with_ymd_and_hms(2024, 10, 30, 0, 0, 0).unwrap());
    assert_eq!(exact - q, TimeDelta::days(10) + TimeDelta::hours(1));
    assert!(exact - q > bound);
    assert_eq!(
        bound_oh.next_change(q),
        None,
        "exact answer lies more than B after the instant: none is required"
    );
}

// T03: a zone with a 24h transition (Pacific/Apia skipped 2011-12-30)
#[test]
fn t03_tz_apia_day_skip() {
    let tz = chrono_tz::Pacific::Apia;
    let mut failures = Vec::new();
    for expr in ["2011 Dec 25-2012 Jan 02", "2011 Dec 20-31", "2011 Dec 31 10:00-12:00"] {
        for bound in [TimeDelta::days(3), TimeDelta::days(5), TimeDelta::days(8), TimeDelta::days(10)] {
            for day in 24..30 {
                for (h, m) in [(0, 0), (12, 0), (23, 59)] {
                    let q = tz.with_ymd_and_hms(2011, 12, day, h, m, 0).unwrap();
                    if let Err(e) = check_tz(expr, tz, bound, q) {
                        failures.push(e);
                    }
                }
            }
        }
    }
    for f in &failures {
        eprintln!("{f}");
    }
    assert!(failures.is_empty(), "{} failures", failures.len());
}

// T04: sweep over a year in several zones
#[test]
fn t04_tz_sweep() {
    let mut failures = Vec::new();
    for tz in [
        chrono_tz::Europe::Paris,
        chrono_tz::America::New_York,
        chrono_tz::Australia::Lord_Howe,
        chrono_tz::Asia::Tokyo,
        chrono_tz::UTC,
    ] {
        for expr in ["Mo 10:00-12:00", "Jan-Jun", "We 00:00-24:00", "Mar 20-Apr 10; Oct 15-Nov 05"] {
            for bound in [TimeDelta::days(2), TimeDelta::days(8), TimeDelta::days(30)] {
                let mut q = tz.with_ymd_and_hms(2024, 1, 1, 0, 0, 0).unwrap();
                let end = tz.with_ymd_and_hms(2024, 12, 31, 0, 0, 0).unwrap();
                while q < end {
                    if let Err(e) = check_tz(expr, tz, bound, q.clone()) {
                        failures.push(e);
                    }
                    q = q + TimeDelta::minutes(7 * 60 + 30);
                }
            }
        }
    }
    eprintln!("{} failures", failures.len());
    for f in failures.iter().take(30) {
        eprintln!("{f}");
    }
    assert!(failures.is_empty(), "{} failures", failures.len());
}

// T05: fixed-offset zones (no transitions) and an instant given in another zone
#[test]
fn t05_fixed_offsets() {
    let mut failures = Vec::new();
    for tz in [chrono_tz::Etc::GMTPlus12, chrono_tz::Etc::GMTMinus14, chrono_tz::Asia::Kolkata] {
        for expr in ["Mo 10:00-12:00", "Jan 10-19", "Fr 22:00-26:00"] {
            for bound in [TimeDelta::days(2), TimeDelta::days(8), TimeDelta::days(30)] {
                let mut q = chrono_tz::UTC.with_ymd_and_hms(2024, 1, 1, 0, 0, 0).unwrap();
                for _ in 0..200 {
                    if let Err(e) = check_tz(expr, tz, bound, q.with_timezone(&tz)) {
                        failures.push(e);
                    }
                    q = q + TimeDelta::minutes(11 * 60 + 13);
                }
            }
        }
    }
    for f in failures.iter().take(30) {
        eprintln!("{f}");
    }
    assert!(failures.is_empty(), "{} failures", failures.len());
}

// T06: coordinates (sun events) with a bound
#[test]
fn t06_coords_sun_events() {
    let tz = chrono_tz::Europe::Paris;
    let coords = Coordinates::new(48.8535, 2.34839).unwrap();
    let mut failures = Vec::new();
    for expr in ["sunrise-sunset", "Jan sunrise-sunset", "dusk-dawn"] {
        for bound in [TimeDelta::hours(30), TimeDelta::days(2), TimeDelta::days(40)] {
            let (exact_oh, bound_oh) = tz_pair(expr, tz, bound, Some(coords));
            let mut q = tz.with_ymd_and_hms(2024, 1, 20, 0, 0, 0).unwrap();
            for _ in 0..150 {
                let exact = exact_oh.next_change(q);
                let got = bound_oh.next_change(q);
                if exact_oh.state(q) != bound_oh.state(q) {
                    failures.push(format!("{expr} {q} state"));
                }
                if let Some(e) = exact {
                    let dist = e - q;
                    if dist <= bound - TimeDelta::hours(24) && got != Some(e) {
                        failures.push(format!("{expr} B={bound:?} {q}: exact {e} required, got {got:?}"));
                    }
                    if dist > bound && got.is_some() {
                        failures.push(format!("{expr} B={bound:?} {q}: none required, got {got:?}"));
                    }
                    if got.is_some() && got != Some(e) {
                        failures.push(format!("{expr} B={bound:?} {q}: {got:?} vs {e}"));
                    }
                } else if got.is_some() {
                    failures.push(format!("{expr} {q}: change invented {got:?}"));
                }
                q = q + TimeDelta::minutes(9 * 60 + 17);
            }
        }
    }
    for f in failures.iter().take(30) {
        eprintln!("{f}");
    }
    assert!(failures.is_empty(), "{} failures", failures.len());
}

// T07: with a bound, a reported change must exist (state differs on both sides), tz skipped hour
#[test]
fn t07_tz_reported_change_exists() {
    let tz = chrono_tz::Europe::Paris;
    let bound = TimeDelta::days(10);
    let (_, bound_oh) = tz_pair("02:00-03:00", tz, bound, None);
    let q = tz.with_ymd_and_hms(2024, 3, 31, 1, 0, 0).unwrap();
    let got = bound_oh.next_change(q).unwrap();
    let before = bound_oh.state(got - TimeDelta::minutes(1));
    let after = bound_oh.state(got);
    assert_ne!(before, after, "reported change at {got} but the state is {before:?} on both sides");
}
