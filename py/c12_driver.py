#!/usr/bin/python3
"""CPython side of the C12 / C06 differential: drive the real extension module over the
constructor-argument product and write one JSON line per (constructor call, datetime) with every
observed outcome. Usage: c12_driver.py <dir holding opening_hours.so> <out.jsonl> <quick|thorough>"""
import json, math, sys, itertools
from datetime import datetime, timedelta, timezone
from zoneinfo import ZoneInfo

sys.path.insert(0, sys.argv[1])
import opening_hours as OH  # noqa: E402

TIER = sys.argv[3]
ABSENT = "<absent>"

TIMEZONES = [ABSENT, "Europe/Paris", "UTC", "Pacific/Apia"]
COUNTRIES = [ABSENT, "FR", "US", "XX", "fr", ""]
COORDS = [ABSENT, (48.85, 2.35), (40.71, -74.0), (0.0, 0.0), (91.0, 0.0), (0.0, 181.0), (float("nan"), 0.0)]
FLAGS = [ABSENT, True, False, None]
EXPRS = ["24/7", "Mo-Fr 10:00-18:00", "sunrise-sunset ; PH off", "10:00-26:30", "2099Mo-Su 12:30-17:00", "\"c\" ; Su off \"d\"", "24/24", "10:00"]
REPR_EXPRS = ["Mo-Fr 10:00-18:00 \"x\\\\y\"", "Mo \"it's\"", "Mo \"é\"", "Mo \"é\"", "Mo \"a\x7fb\"", "Mo \"tab\there\"", "Mo-Fr 10:00-18:00 ; PH off", "\"x\":Mo 10:00-12:00 \"y\"", "Jan-Mar,Aug-Dec 05:00-23:00; 2020 off"]

def dts():
    out = []
    base = [("2024-07-14T12:00:00", 0), ("2024-03-31T02:30:00", 0), ("2024-10-27T02:30:00", 0), ("2024-10-27T02:30:00", 1), ("1899-12-31T23:59:00", 0), ("9999-12-31T23:59:00", 0), ("2024-12-23T14:44:00", 0)]
    for iso, fold in base:
        d = datetime.fromisoformat(iso).replace(fold=fold)
        out.append(("naive", None, d))
        for z in ("Europe/Paris", "UTC", "Asia/Tokyo"):
            out.append(("aware", z, d.replace(tzinfo=ZoneInfo(z))))
    # aware datetimes whose tzinfo is not a ZoneInfo: the standard library's own fixed offsets
    # (appended last: the probe indices above stay what they were)
    for iso in ("2024-07-14T12:00:00", "2024-12-23T14:44:00"):
        d = datetime.fromisoformat(iso)
        out.append(("aware-fixed", "UTC", d.replace(tzinfo=timezone.utc)))
        out.append(("aware-fixed", "+01:00", d.replace(tzinfo=timezone(timedelta(hours=1)))))
    return out

def plus3(d):
    try:
        return d + timedelta(days=3)
    except OverflowError:
        return d.replace(hour=23, minute=59, second=59)

def enc_dt(d):
    if d is None:
        return None
    if not isinstance(d, datetime):
        return {"bad": repr(d)}
    key = getattr(d.tzinfo, "key", None) if d.tzinfo is not None else None
    r = {"local": d.replace(tzinfo=None).isoformat(), "tz": key if d.tzinfo is not None else None, "fold": d.fold}
    if d.tzinfo is not None:
        if key is None:
            r["tz"] = str(d.tzinfo)
            r["fixed"] = True
        try:
            u = d.astimezone(timezone.utc)
            r["utc"] = u.replace(tzinfo=None).isoformat()
        except Exception as e:  # noqa
            r["utc_err"] = type(e).__name__
    return r

def guard(f):
    try:
        return {"ok": f()}
    except BaseException as e:  # noqa  (PanicException derives from BaseException)
        return {"exc": type(e).__name__, "msg": str(e)[:160]}

def enc_iv(t):
    s, e, st, cs = t
    return [enc_dt(s), enc_dt(e), str(st), list(cs)]

def observe(oh, kind, zone, d, end):
    obs = {}
    obs["state"] = guard(lambda: str(oh.state(d)))
    obs["is_open"] = guard(lambda: oh.is_open(d))
    obs["is_closed"] = guard(lambda: oh.is_closed(d))
    obs["is_unknown"] = guard(lambda: oh.is_unknown(d))
    obs["next_change"] = guard(lambda: enc_dt(oh.next_change(d)))
    obs["intervals"] = guard(lambda: [enc_iv(t) for t in itertools.islice(oh.intervals(d), 6)])
    obs["intervals_end"] = guard(lambda: [enc_iv(t) for t in itertools.islice(oh.intervals(d, end), 6)])
    return obs

def ctor_kwargs(tz, country, coords, ac, at):
    kw = {}
    if tz is not ABSENT:
        kw["timezone"] = ZoneInfo(tz)
    if country is not ABSENT:
        kw["country"] = country
    if coords is not ABSENT:
        kw["coords"] = coords
    if ac is not ABSENT:
        kw["auto_country"] = ac
    if at is not ABSENT:
        kw["auto_timezone"] = at
    return kw

def enc_ctor(tz, country, coords, ac, at):
    def f(x):
        return None if x is ABSENT else x
    c = None
    if coords is not ABSENT:
        c = [None if (isinstance(v, float) and math.isnan(v)) else v for v in coords]
        if math.isnan(coords[0]):
            c = ["nan", coords[1]]
    return {"timezone": f(tz), "country": f(country), "coords": c, "auto_country": "absent" if ac is ABSENT else ac, "auto_timezone": "absent" if at is ABSENT else at}

def main():
    out = open(sys.argv[2], "w")
    all_dts = dts()
    probe = [all_dts[0], all_dts[5], all_dts[26]] if TIER == "quick" else [all_dts[0], all_dts[5], all_dts[9], all_dts[14], all_dts[26]]
    n = 0
    # (A) full constructor product, probe datetimes
    exprs_a = EXPRS if TIER != "quick" else [EXPRS[2], EXPRS[1], EXPRS[6], EXPRS[7]]
    if TIER == "repr":
        exprs_a = []
    for expr in exprs_a:
        for tz, country, coords, ac, at in itertools.product(TIMEZONES, COUNTRIES, COORDS, FLAGS, FLAGS):
            kw = ctor_kwargs(tz, country, coords, ac, at)
            rec = {"part": "A", "expr": expr, "ctor": enc_ctor(tz, country, coords, ac, at)}
            made = guard(lambda: OH.OpeningHours(expr, **kw))
            if "exc" in made:
                rec["ctor_exc"] = made["exc"]
                out.write(json.dumps(rec) + "\n"); n += 1
                continue
            oh = made["ok"]
            rec["ctor_exc"] = None
            rec["str"] = guard(lambda: str(oh))
            rec["points"] = []
            for kind, zone, d in probe:
                end = plus3(d)
                rec["points"].append({"dt": enc_dt(d), "end": enc_dt(end), "obs": observe(oh, kind, zone, d, end)})
            out.write(json.dumps(rec) + "\n"); n += 1
    # (B) representative contexts, all datetimes, all expressions
    reps = [(ABSENT, ABSENT, ABSENT, ABSENT, ABSENT), ("Europe/Paris", ABSENT, ABSENT, ABSENT, ABSENT), ("Europe/Paris", "FR", (48.85, 2.35), ABSENT, ABSENT), (ABSENT, ABSENT, (48.85, 2.35), ABSENT, ABSENT),
            (ABSENT, ABSENT, (40.71, -74.0), True, False), (ABSENT, ABSENT, (40.71, -74.0), False, True), ("Pacific/Apia", "US", ABSENT, ABSENT, ABSENT), ("UTC", ABSENT, (0.0, 0.0), None, None),
            (ABSENT, "FR", ABSENT, ABSENT, ABSENT), ("Europe/Paris", ABSENT, (40.71, -74.0), ABSENT, ABSENT)]
    for expr in (EXPRS[:6] if TIER != "repr" else []):
        for tz, country, coords, ac, at in reps:
            kw = ctor_kwargs(tz, country, coords, ac, at)
            rec = {"part": "B", "expr": expr, "ctor": enc_ctor(tz, country, coords, ac, at)}
            made = guard(lambda: OH.OpeningHours(expr, **kw))
            if "exc" in made:
                rec["ctor_exc"] = made["exc"]
                out.write(json.dumps(rec) + "\n"); n += 1
                continue
            oh = made["ok"]
            rec["ctor_exc"] = None
            rec["str"] = guard(lambda: str(oh))
            rec["normalize_str"] = guard(lambda: str(oh.normalize()))
            rec["points"] = []
            for kind, zone, d in all_dts:
                end = plus3(d)
                rec["points"].append({"dt": enc_dt(d), "end": enc_dt(end), "obs": observe(oh, kind, zone, d, end)})
                # mixed awareness of the two bounds of intervals(start, end): an aware start with a naive
                # end (read as wall-clock time of the context, like every naive input) and a naive start
                # with an end given in a third zone
                try:
                    end2 = end.replace(tzinfo=None) if d.tzinfo is not None else end.replace(tzinfo=ZoneInfo("America/Sao_Paulo"))
                except Exception:  # noqa
                    continue
                rec["points"].append({"dt": enc_dt(d), "end": enc_dt(end2), "mixed": True, "obs": observe(oh, kind, zone, d, end2)})
            out.write(json.dumps(rec) + "\n"); n += 1
    # (C) validate and str/repr round trips
    for s in EXPRS + REPR_EXPRS + ["", " ", "Mo[6]", "\"", "Mo-Fr 10:00-18:00;Sa-Su 10:00-12:00", "PH +1 day", "(sunrise+00:30)-sunset", "10:00-12:00/30", "2030-2030/3",
              # one input per error class of the parser (grammar error, unsupported construct, numeric
              # overflow, invalid extended time) and per out-of-range field of the statement's list
              "10:00-48:01", "Mo-Fr 22:00-48:30", "10:00-49:00", "week 1-10/256", "week 1-10/255", "2020-2030/65536", "2020-2030/65535", "Jan 1 +9223372036854775808 days",
              "Jan 1 +9223372036854775807 days", "easter-31", "easter 31", "10:00", "Mo 10:00", "Mo 25:00-26:00", "Mo 24:00-26:00", "Mo[0]", "Mo[5]", "1899", "1900", "9999", "10000", "week 54", "week 53",
              "week 0", "Jan 32", "Jan 31", "Jan 0", "10:60-12:00", "2020-2030/0", "week 1-10/0", "Mo \"unbalanced", "24/24", " 24/7 ", "24/7"]:
        rec = {"part": "C", "expr": s}
        rec["validate"] = guard(lambda: OH.validate(s))
        made = guard(lambda: OH.OpeningHours(s))
        rec["ctor_exc"] = made.get("exc")
        if "ok" in made:
            oh = made["ok"]
            rec["str"] = guard(lambda: str(oh))
            rec["repr"] = guard(lambda: repr(oh))
            rec["eval_repr_str"] = guard(lambda: str(eval(repr(oh), {"OpeningHours": OH.OpeningHours})))
            rec["normalize_repr"] = guard(lambda: repr(oh.normalize()))
        out.write(json.dumps(rec) + "\n"); n += 1
    out.close()
    print("c12_driver: wrote %d records" % n)

if __name__ == "__main__":
    main()
